package props

import (
	"fmt"
	"math/big"
	"sort"
	"strings"
	"testing"

	sdkmath "cosmossdk.io/math"
	storetypes "cosmossdk.io/store/types"
	sdk "github.com/cosmos/cosmos-sdk/types"
	authtypes "github.com/cosmos/cosmos-sdk/x/auth/types"
	"github.com/ethereum/go-ethereum/common"
	"pgregory.net/rapid"

	"github.com/functionx/fx-core/v8/contract"
	fxtypes "github.com/functionx/fx-core/v8/types"
	crosschaintypes "github.com/functionx/fx-core/v8/x/crosschain/types"
	erc20types "github.com/functionx/fx-core/v8/x/erc20/types"

	"verif/harness/ev"
	"verif/harness/evmprog"
	"verif/harness/sim"
)

// ---------------------------------------------------------------------------------------------
// C08 — coin <-> ERC-20 conversion conserves value and keeps the pair books balanced.
// (A) message-level histories of convert-coin / convert-erc20 / convert-denom / register / toggle /
//     alias updates;  (B) EVM programs in which one contract mixes direct token calls with precompile
//     calls that convert the same token in the same transaction.
// Invariants after every step: module-owned pair: escrowed coins == ERC-20 total supply (FX: coins
// held by the wrapper contract); externally-owned pair: ERC-20 escrowed by the module == coin supply
// over base + bridge denominations; balances sum to total supply; indexes describe one set of pairs.
// ---------------------------------------------------------------------------------------------

type c08Op struct {
	Kind  string `json:"kind"`
	U     int    `json:"u"`
	V     int    `json:"v"`
	Tok   int    `json:"tok"`
	Amt   int64  `json:"amt"`
	Chain int    `json:"chain"`
	Flag  bool   `json:"flag"`
	Idx   int    `json:"idx"`
}

type c08Step struct { // one op of an EVM program
	Kind  string `json:"kind"` // transfer | approve | transferfrom | tomodule | crosschain | bridgecall | cancel | incfee | execclaim
	Tok   int    `json:"tok"`
	Amt   int64  `json:"amt"`
	To    int    `json:"to"`
	Catch bool   `json:"catch"`
}

type c08Case struct {
	Ops      []c08Op   `json:"ops,omitempty"`
	Program  []c08Step `json:"program,omitempty"`
	Epilogue int       `json:"epilogue"`
}

func genC08A(t *rapid.T) c08Case {
	n := rapid.IntRange(3, 30).Draw(t, "n")
	var c c08Case
	kinds := []string{"convertcoin", "convertcoin", "converterc20", "converterc20", "convertdenom", "convertdenom", "registercoin", "registererc20", "toggle", "alias", "transfer"}
	for i := 0; i < n; i++ {
		c.Ops = append(c.Ops, c08Op{Kind: rapid.SampledFrom(kinds).Draw(t, "kind"), U: rapid.IntRange(0, 3).Draw(t, "u"), V: rapid.SampledFrom([]int{0, 1, 2, 3, 0, 1, 2, 3, 0, 1, 2, 3, 4, 5, 6}).Draw(t, "v"), Tok: rapid.IntRange(0, 5).Draw(t, "tok"),
			Amt: rapid.Int64Range(1, 100000).Draw(t, "amt"), Chain: rapid.IntRange(0, 4).Draw(t, "chain"), Flag: rapid.Bool().Draw(t, "flag"), Idx: rapid.IntRange(0, 5).Draw(t, "idx")})
		if op := &c.Ops[len(c.Ops)-1]; op.Kind == "convertdenom" && rapid.IntRange(0, 2).Draw(t, "toModule") == 0 {
			// composite: the sender first turns base coins into one chain's bridge denomination (to itself), then converts that
			// denomination back to the base denomination with a module account (or another user) as the receiver
			k := rapid.IntRange(0, 2).Draw(t, "viaChain")
			first := *op
			first.V, first.Flag, first.Chain = first.U, false, k
			op.V = rapid.SampledFrom([]int{4, 4, 5, 6, 0, 1}).Draw(t, "vmod")
			op.Flag, op.Idx, op.Chain = true, k, 4
			if op.Amt > 1 {
				op.Amt = rapid.Int64Range(1, op.Amt).Draw(t, "backAmt")
			}
			c.Ops = append(c.Ops[:len(c.Ops)-1], first, *op)
		}
	}
	return c
}

func genC08B(t *rapid.T) c08Case {
	n := rapid.IntRange(2, 6).Draw(t, "n")
	c := c08Case{Epilogue: rapid.SampledFrom([]int{0, 0, 0, 1}).Draw(t, "epi")}
	tok := rapid.IntRange(0, 2).Draw(t, "tok") // programs concentrate on one token
	kinds := []string{"transfer", "transfer", "approve", "transferfrom", "tomodule", "crosschain", "bridgecall", "bridgecall", "cancel", "incfee", "execclaim"}
	for i := 0; i < n; i++ {
		c.Program = append(c.Program, c08Step{Kind: rapid.SampledFrom(kinds).Draw(t, "kind"), Tok: tok, Amt: rapid.Int64Range(1, 400).Draw(t, "amt"), To: rapid.IntRange(0, 3).Draw(t, "to"), Catch: rapid.Bool().Draw(t, "catch")})
	}
	return c
}

type c08Env struct {
	f       *sim.Fixture
	holders []common.Address // closed holder set for ERC-20 balances
	extra   []*sim.Token     // pairs registered during the history
	runner  common.Address
	donated map[common.Address]*big.Int // ERC-20 sent straight to the module address (a plain transfer nobody can prevent)
}

func (e *c08Env) tokens() []*sim.Token {
	return append(append([]*sim.Token{}, e.f.Tokens...), e.extra...)
}

func c08ModuleAddr(name string) common.Address {
	return common.BytesToAddress(authtypes.NewModuleAddress(name))
}

// invariants of the pair books.
func (e *c08Env) invariants(ctx sdk.Context, desc string) *Failure {
	f := e.f
	erc20Mod := c08ModuleAddr(erc20types.ModuleName)
	pairs := f.App.Erc20Keeper.GetAllTokenPairs(ctx)
	for _, p := range pairs {
		addr := p.GetERC20Contract()
		if acc := f.App.EvmKeeper.GetAccount(ctx, addr); acc == nil || !acc.IsContract() {
			continue
		}
		supply := f.TotalSupply(ctx, addr)
		sum := new(big.Int)
		for _, h := range e.holders {
			sum.Add(sum, f.BalanceOf(ctx, addr, h))
		}
		if sum.Cmp(supply) != 0 {
			return failf("C08/balances-vs-total-supply/"+ownerKind(p), "%s: token %s (%s): balances over all holders sum to %s but totalSupply is %s", desc, p.Denom, addr.Hex()[:10], sum, supply)
		}
		switch {
		case p.IsNativeCoin() && p.Denom == fxtypes.DefaultDenom:
			esc := f.App.BankKeeper.GetBalance(ctx, addr.Bytes(), fxtypes.DefaultDenom).Amount.BigInt()
			if esc.Cmp(supply) != 0 {
				return failf("C08/escrow-vs-supply/fx", "%s: wrapped FX: the wrapper contract holds %s FX but its ERC-20 total supply is %s", desc, esc, supply)
			}
		case p.IsNativeCoin():
			esc := f.App.BankKeeper.GetBalance(ctx, erc20Mod.Bytes(), p.Denom).Amount.BigInt()
			if esc.Cmp(supply) != 0 {
				return failf("C08/escrow-vs-supply/module-owned", "%s: %s: the erc20 module escrows %s coins but the ERC-20 total supply is %s", desc, p.Denom, esc, supply)
			}
		case p.IsNativeERC20():
			esc := f.BalanceOf(ctx, addr, erc20Mod)
			coins := f.App.BankKeeper.GetSupply(ctx, p.Denom).Amount.BigInt()
			if md, ok := f.App.BankKeeper.GetDenomMetaData(ctx, p.Denom); ok && len(md.DenomUnits) > 0 {
				for _, a := range md.DenomUnits[0].Aliases {
					coins = new(big.Int).Add(coins, f.App.BankKeeper.GetSupply(ctx, a).Amount.BigInt())
				}
			}
			if d := e.donated[addr]; d != nil {
				coins = new(big.Int).Add(coins, d) // donations over-collateralise the coin, they are not a conversion
			}
			if esc.Cmp(coins) != 0 {
				return failf("C08/escrow-vs-supply/externally-owned", "%s: %s: the erc20 module escrows %s ERC-20 but the coin supply over base and bridge denominations is %s", desc, p.Denom, esc, coins)
			}
		}
		// index bijection
		if q, ok := f.App.Erc20Keeper.GetTokenPair(ctx, p.Denom); !ok || q != p {
			return failf("C08/index/by-denom", "%s: pair %v is not found by its denom (%v %v)", desc, p, q, ok)
		}
		if q, ok := f.App.Erc20Keeper.GetTokenPairByAddress(ctx, addr); !ok || q != p {
			return failf("C08/index/by-erc20", "%s: pair %v is not found by its contract (%v %v)", desc, p, q, ok)
		}
		if md, ok := f.App.BankKeeper.GetDenomMetaData(ctx, p.Denom); ok && len(md.DenomUnits) > 0 {
			for _, a := range md.DenomUnits[0].Aliases {
				if d, ok := f.App.Erc20Keeper.GetAliasDenom(ctx, a); !ok || d != p.Denom {
					return failf("C08/index/alias-missing", "%s: alias %s of %s in the bank metadata is not in the alias index (%q %v)", desc, a, p.Denom, d, ok)
				}
			}
		}
	}
	// every index entry points at an existing pair; every alias entry is listed in its base denom's metadata
	st := ctx.KVStore(f.App.GetKey(erc20types.StoreKey))
	for _, pre := range [][]byte{erc20types.KeyPrefixTokenPairByDenom, erc20types.KeyPrefixTokenPairByERC20} {
		it := storetypes.KVStorePrefixIterator(st, pre)
		for ; it.Valid(); it.Next() {
			if !st.Has(append(append([]byte{}, erc20types.KeyPrefixTokenPair...), it.Value()...)) {
				it.Close()
				return failf("C08/index/dangling", "%s: index entry %x points at a pair that does not exist", desc, it.Key())
			}
		}
		it.Close()
	}
	it := storetypes.KVStorePrefixIterator(st, erc20types.KeyPrefixAliasDenom)
	defer it.Close()
	for ; it.Valid(); it.Next() {
		alias, base := string(it.Key()[1:]), string(it.Value())
		md, ok := f.App.BankKeeper.GetDenomMetaData(ctx, base)
		listed := false
		if ok && len(md.DenomUnits) > 0 {
			for _, a := range md.DenomUnits[0].Aliases {
				if a == alias {
					listed = true
				}
			}
		}
		if !listed || !f.App.Erc20Keeper.IsDenomRegistered(ctx, base) {
			return failf("C08/index/alias-stale", "%s: the alias index maps %s -> %s but the metadata of a registered pair does not list it", desc, alias, base)
		}
	}
	return nil
}

func ownerKind(p erc20types.TokenPair) string {
	if p.IsNativeERC20() {
		return "externally-owned"
	}
	if p.Denom == fxtypes.DefaultDenom {
		return "fx"
	}
	return "module-owned"
}

// value of an account in a token group: base coin + alias coins + ERC-20.
func (e *c08Env) value(ctx sdk.Context, who common.Address, t *sim.Token) *big.Int {
	bal := e.f.App.BankKeeper.GetAllBalances(ctx, who.Bytes())
	sum := new(big.Int).Set(bal.AmountOf(t.Base).BigInt())
	if md, ok := e.f.App.BankKeeper.GetDenomMetaData(ctx, t.Base); ok && len(md.DenomUnits) > 0 {
		for _, a := range md.DenomUnits[0].Aliases {
			sum.Add(sum, bal.AmountOf(a).BigInt())
		}
	}
	if acc := e.f.App.EvmKeeper.GetAccount(ctx, t.ERC20); acc != nil && acc.IsContract() {
		sum.Add(sum, e.f.BalanceOf(ctx, t.ERC20, who))
	}
	return sum
}

func newC08Env(f *sim.Fixture, ctx sdk.Context) *c08Env {
	e := &c08Env{f: f, runner: sim.HexAddrN("c08-contract", 1), donated: map[common.Address]*big.Int{}}
	for _, u := range f.Users {
		e.holders = append(e.holders, u.Hex())
	}
	e.holders = append(e.holders, e.runner, c08ModuleAddr(erc20types.ModuleName), sim.CrosschainAddr, sim.StakingAddr, c08ModuleAddr("evm"), common.Address{})
	for _, ch := range sim.AllChains {
		e.holders = append(e.holders, c08ModuleAddr(ch))
	}
	for _, ch := range baseChains {
		for i := 0; i < 4; i++ {
			e.holders = append(e.holders, crosschaintypes.ExternalAddrToHexAddr(ch, sim.ExtAddrN(ch, "depositor", i)))
		}
	}
	return e
}

func runC08A(c c08Case, rec *ev.Recorder) *Failure {
	f := base()
	ctx, _ := f.Ctx.CacheContext()
	e := newC08Env(f, ctx)
	gov := sim.GovAddr.String()
	// legacy holdings: coins of the module-owned pair's per-chain denominations in user accounts (as left by deposits made before the
	// denominations were merged into one base denomination - the state MsgConvertDenom exists for)
	for _, tk := range f.Tokens {
		if tk.Kind == sim.KindModule {
			for i, chn := range baseChains {
				if d := tk.Bridge[chn]; d != "" {
					f.Mint(ctx, f.Users[i%2].Acc(), sdk.NewCoin(d, sdkmath.NewInt(60_000)))
				}
			}
		}
	}
	if fl := e.invariants(ctx, "base state"); fl != nil {
		return fl
	}
	labels := map[string]bool{}
	kinds := map[string]bool{}
	for si, op := range c.Ops {
		desc := fmt.Sprintf("step %d %+v", si, op)
		toks := e.tokens()
		t := toks[op.Tok%len(toks)]
		u, v := f.Users[op.U%4], f.Users[op.V%4]
		// the receiver of a conversion is any address the sender writes: users, and (V >= 4) module accounts - the erc20 module's
		// own escrow account, a bridge module, the IBC transfer module
		vHex := v.Hex()
		if op.V >= 4 && strings.HasPrefix(op.Kind, "convert") {
			vHex = c08ModuleAddr([]string{erc20types.ModuleName, "eth", "transfer"}[(op.V-4)%3])
			labels["receiver-is-module-account"] = true
		}
		vAcc := sdk.AccAddress(vHex.Bytes())
		amt := sdkmath.NewInt(op.Amt)
		type snap struct{ u, v *big.Int }
		pre := map[string]snap{}
		for _, tk := range toks {
			pre[tk.Name] = snap{e.value(ctx, u.Hex(), tk), e.value(ctx, vHex, tk)}
		}
		var ok bool
		moved := false
		switch op.Kind {
		case "convertcoin":
			denom := t.Base
			ok = f.RunMsg(ctx, &erc20types.MsgConvertCoin{Coin: sdk.NewCoin(denom, amt), Receiver: vHex.String(), Sender: u.Acc().String()}).OK()
			moved = ok
		case "converterc20":
			ok = f.RunMsg(ctx, &erc20types.MsgConvertERC20{ContractAddress: t.ERC20.String(), Amount: amt, Receiver: vAcc.String(), Sender: u.Hex().String()}).OK()
			moved = ok
		case "convertdenom":
			target := append(append([]string{}, baseChains...), "erc20", "")[op.Chain%5]
			denom := t.Base
			if op.Flag && len(t.Bridge) > 0 {
				denom = t.Bridge[baseChains[op.Idx%len(baseChains)]]
			}
			if denom == "" {
				denom = t.Base
			}
			ok = f.RunMsg(ctx, &erc20types.MsgConvertDenom{Sender: u.Acc().String(), Receiver: vAcc.String(), Coin: sdk.NewCoin(denom, amt), Target: target}).OK()
			moved = ok
			if ok {
				labels["convert-denom"] = true
			}
		case "transfer":
			data, _ := contract.GetFIP20().ABI.Pack("transfer", v.Hex(), amt.BigInt())
			ok = f.EthTx(ctx, u, &t.ERC20, nil, data, 500_000).Success()
			moved = ok
		case "registercoin":
			// symbols (and so base denominations) of every shape, also ones that merely begin like a chain name
			sym := fmt.Sprintf("%s%d", []string{"NEW", "ETHW", "TRONX", "BSCPAD", "POLYGONS", "IBCX"}[op.Idx%6], len(e.extra))
			md := fxtypes.GetCrossChainMetadataManyToOne("New "+sym, sym, 18)
			if op.Flag {
				md = fxtypes.GetCrossChainMetadataManyToOne("New "+sym, sym, 18, crosschaintypes.NewBridgeDenom("eth", sim.ExtAddrN("eth", "c08new", len(e.extra))))
			}
			if op.Chain%4 == 3 {
				// the coin's bank metadata is already stored (as after a genesis import or an upgrade), the proposal repeats it
				f.App.BankKeeper.SetDenomMetaData(ctx, md)
				labels["register-coin-with-stored-metadata"] = true
			}
			if r := f.RunMsg(ctx, &erc20types.MsgRegisterCoin{Authority: gov, Metadata: md}); r.OK() {
				p, _ := f.App.Erc20Keeper.GetTokenPair(ctx, md.Base)
				nt := &sim.Token{Name: sym, Kind: sim.KindModule, Base: md.Base, ERC20: p.GetERC20Contract(), Bridge: map[string]string{}, Contracts: map[string]string{}}
				e.extra = append(e.extra, nt)
				f.Mint(ctx, u.Acc(), sdk.NewCoin(md.Base, sdkmath.NewInt(1_000_000)))
				labels["register-coin"] = true
			}
		case "registererc20":
			addr, err := f.App.Erc20Keeper.DeployUpgradableToken(ctx, u.Hex(), "Third Token", fmt.Sprintf("%s%d", []string{"TRD", "ETHFI", "TRONIX", "BSCX", "ARBITRUMY", "LAYER2Z"}[op.Idx%6], len(e.extra)), 18)
			if err != nil {
				return failf("harness", "deploy: %v", err)
			}
			var aliases []string
			if op.Flag {
				aliases = []string{crosschaintypes.NewBridgeDenom("bsc", sim.ExtAddrN("bsc", "c08new", len(e.extra)))}
			}
			if r := f.RunMsg(ctx, &erc20types.MsgRegisterERC20{Authority: gov, Erc20Address: addr.String(), Aliases: aliases}); r.OK() {
				p, _ := f.App.Erc20Keeper.GetTokenPairByAddress(ctx, addr)
				nt := &sim.Token{Name: strings.ToUpper(p.Denom), Kind: sim.KindExternal, Base: p.Denom, ERC20: addr, Bridge: map[string]string{}, Contracts: map[string]string{}, Owner: op.U % 4}
				e.extra = append(e.extra, nt)
				data, _ := contract.GetFIP20().ABI.Pack("mint", u.Hex(), big.NewInt(1_000_000))
				f.EthTx(ctx, u, &addr, nil, data, 500_000)
				// half of it in coin form, so that denomination conversions have something to work on
				f.RunMsg(ctx, &erc20types.MsgConvertERC20{ContractAddress: addr.String(), Amount: sdkmath.NewInt(500_000), Receiver: u.Acc().String(), Sender: u.Hex().String()})
				labels["register-erc20"] = true
			}
		case "toggle":
			tok := t.Base
			if op.Flag {
				tok = t.ERC20.String()
			}
			if f.RunMsg(ctx, &erc20types.MsgToggleTokenConversion{Authority: gov, Token: tok}).OK() {
				labels["toggle"] = true
			}
		case "alias":
			alias := crosschaintypes.NewBridgeDenom("polygon", sim.ExtAddrN("polygon", "c08alias", op.Idx))
			if op.Flag && len(t.Bridge) > 0 {
				alias = t.Bridge[baseChains[op.Idx%len(baseChains)]]
			}
			if alias == "" {
				break
			}
			// removing an alias whose denomination still has coins in circulation strands them
			if reg, found := f.App.Erc20Keeper.GetAliasDenom(ctx, alias); found && reg == t.Base && f.App.BankKeeper.GetSupply(ctx, alias).Amount.IsPositive() {
				sig := "C08/alias-removed-with-outstanding-supply/" + t.Kind
				if isKnown(sig) {
					rec.Exclude("removal of an alias denomination that still has supply (known finding)")
					break
				}
				if f.RunMsg(ctx, &erc20types.MsgUpdateDenomAlias{Authority: gov, Denom: t.Base, Alias: alias}).OK() {
					if fl := e.invariants(ctx, desc); fl != nil {
						fl.Sig = sig
						fl.Msg = "governance removed alias " + alias + " of " + t.Base + " while " + f.App.BankKeeper.GetSupply(ctx, alias).String() + " of it is in circulation: " + fl.Msg
						return fl
					}
					labels["alias-update"] = true
				}
				break
			}
			if f.RunMsg(ctx, &erc20types.MsgUpdateDenomAlias{Authority: gov, Denom: t.Base, Alias: alias}).OK() {
				labels["alias-update"] = true
			}
		}
		if moved && vHex != v.Hex() {
			labels["conversion-to-module-account-accepted"] = true
		}
		if moved {
			kinds[t.Kind] = true
			labels["conversion"] = true
			// exactly amount leaves the sender's holdings of that token and reaches the receiver's; every other token untouched
			for _, tk := range e.tokens() {
				p, okp := pre[tk.Name]
				if !okp {
					continue
				}
				du := new(big.Int).Sub(e.value(ctx, u.Hex(), tk), p.u)
				dv := new(big.Int).Sub(e.value(ctx, vHex, tk), p.v)
				wantU, wantV := big.NewInt(0), big.NewInt(0)
				if tk == t && u.Hex() != vHex {
					wantU, wantV = new(big.Int).Neg(amt.BigInt()), amt.BigInt()
				}
				if du.Cmp(wantU) != 0 || dv.Cmp(wantV) != 0 {
					return failf("C08/conversion-moves-exact-amount/"+op.Kind, "%s: token %s: sender holdings changed by %s (want %s), receiver by %s (want %s)", desc, tk.Name, du, wantU, dv, wantV)
				}
			}
		}
		if fl := e.invariants(ctx, desc); fl != nil {
			return fl
		}
	}
	var ls []string
	for l := range labels {
		ls = append(ls, l)
	}
	sort.Strings(ls)
	ks := ""
	for _, op := range c.Ops {
		ks += op.Kind[:5] + fmt.Sprint(op.Tok%4)
	}
	nontrivial := labels["conversion"] && len(kinds) >= 2
	rec.Case(ev.Sig("A", ks), nontrivial, append(ls, "A")...)
	if nontrivial && rec.WantSample() {
		rec.Sample(c)
	}
	return nil
}

func runC08B(c c08Case, rec *ev.Recorder) *Failure {
	f := base()
	ctx, _ := f.Ctx.CacheContext()
	e := newC08Env(f, ctx)
	R := e.runner
	f.InstallRunner(ctx, R)
	f.Mint(ctx, R.Bytes(), sim.FxCoin(10_000))
	u := f.Users[0]
	t := f.Tokens[c.Program[0].Tok%len(f.Tokens)]
	// the contract holds the token, has approved the precompile, has a queued withdrawal and a parked deposit
	tr, _ := contract.GetFIP20().ABI.Pack("transfer", R, big.NewInt(50_000))
	if !f.EthTx(ctx, u, &t.ERC20, nil, tr, 500_000).Success() {
		return failf("harness", "fund contract with %s", t.Name)
	}
	ap, _ := contract.GetFIP20().ABI.Pack("approve", sim.CrosschainAddr, new(big.Int).Lsh(big.NewInt(1), 200))
	ch := f.Chains[0]
	cc, _ := crosschaintypes.GetABI().Pack("crossChain", t.ERC20, sim.ExtAddrN(ch, "c08dest", 1), big.NewInt(500), big.NewInt(5), fxtypes.MustStrToByte32(ch), "")
	if r, _ := f.RunScript(ctx, u, R, evmprog.Script{Calls: []evmprog.Call{{Target: t.ERC20, Data: ap}, {Target: sim.CrosschainAddr, Data: cc}}}, nil, 3_000_000); !r.Success() {
		return failf("harness", "contract setup: %v %s", r.Err, respErr(r))
	}
	poolID := uint64(0)
	for _, tx := range f.Keeper(ch).GetUnbatchedTransactions(ctx) {
		if tx.Sender == sdk.AccAddress(R.Bytes()).String() {
			poolID = tx.Id
		}
	}
	var claim uint64
	if t.Kind == sim.KindModule {
		n, err := f.Observe(ctx, ch, &crosschaintypes.MsgSendToFxClaim{TokenContract: t.Contracts[ch], Amount: sdkmath.NewInt(321), Sender: sim.ExtAddrN(ch, "c08ext", 1), Receiver: sdk.AccAddress(R.Bytes()).String(), TargetIbc: fmt.Sprintf("%x", "erc20")}, 9300)
		if err != nil {
			return failf("harness", "observe: %v", err)
		}
		claim = n
	}
	if fl := e.invariants(ctx, "before the program"); fl != nil {
		return fl
	}
	// the program
	s := evmprog.Script{Epilogue: c.Epilogue}
	touchesBefore := false
	sawTokenWrite := false
	var stepAmt []int64
	var stepKind []string
	for _, st := range c.Program {
		if sawTokenWrite && (st.Kind == "bridgecall" || st.Kind == "execclaim" || st.Kind == "cancel" || st.Kind == "incfee" || st.Kind == "crosschain") &&
			isKnown("C08/nested-evm-overlap/"+t.Kind+"/"+st.Kind) {
			rec.Exclude("precompile step " + st.Kind + " after a token write on a " + t.Kind + " pair (known finding: nested EVM execution overlaps the outer state)")
			continue
		}
		var call evmprog.Call
		call.Catch = st.Catch
		amt := big.NewInt(st.Amt)
		to := f.Users[st.To%4].Hex()
		switch st.Kind {
		case "transfer":
			call.Target = t.ERC20
			call.Data, _ = contract.GetFIP20().ABI.Pack("transfer", to, amt)
			call.Note = fmt.Sprintf("%s.transfer(user%d,%d)", t.Name, st.To%4, st.Amt)
			sawTokenWrite = true
		case "approve":
			call.Target = t.ERC20
			call.Data, _ = contract.GetFIP20().ABI.Pack("approve", to, amt)
			call.Note = fmt.Sprintf("%s.approve(user%d,%d)", t.Name, st.To%4, st.Amt)
		case "transferfrom":
			// users approved the crosschain precompile only, so this normally fails; still a write attempt
			call.Target = t.ERC20
			call.Data, _ = contract.GetFIP20().ABI.Pack("transferFrom", R, to, amt)
			call.Note = fmt.Sprintf("%s.transferFrom(self,user%d,%d)", t.Name, st.To%4, st.Amt)
		case "tomodule":
			call.Target = t.ERC20
			call.Data, _ = contract.GetFIP20().ABI.Pack("transfer", c08ModuleAddr(erc20types.ModuleName), amt)
			call.Note = fmt.Sprintf("%s.transfer(erc20 module,%d)", t.Name, st.Amt)
			sawTokenWrite = true
		case "crosschain":
			sawTokenWriteAfter := true
			_ = sawTokenWriteAfter
			call.Target = sim.CrosschainAddr
			call.Data, _ = crosschaintypes.GetABI().Pack("crossChain", t.ERC20, sim.ExtAddrN(ch, "c08dest", 2), amt, big.NewInt(2), fxtypes.MustStrToByte32(ch), "")
			call.Note = fmt.Sprintf("crosschain.crossChain(%s,%d)", t.Name, st.Amt)
			touchesBefore = touchesBefore || sawTokenWrite
		case "bridgecall":
			if t.Kind == sim.KindExternal && isKnown("C08/claim-handler-panic/keeper.Keeper.HandleOutgoingBridgeCallRefund/externally-owned") {
				continue
			}
			call.Target = sim.CrosschainAddr
			call.Data, _ = crosschaintypes.GetABI().Pack("bridgeCall", ch, R, []common.Address{t.ERC20}, []*big.Int{amt}, to, []byte{7}, big.NewInt(0), []byte{})
			call.Note = fmt.Sprintf("crosschain.bridgeCall(%s,%d)", t.Name, st.Amt)
			touchesBefore = touchesBefore || sawTokenWrite
		case "cancel":
			call.Target = sim.CrosschainAddr
			call.Data, _ = crosschaintypes.GetABI().Pack("cancelSendToExternal", ch, new(big.Int).SetUint64(poolID))
			call.Note = "crosschain.cancelSendToExternal(own)"
			touchesBefore = touchesBefore || sawTokenWrite
		case "incfee":
			call.Target = sim.CrosschainAddr
			call.Data, _ = crosschaintypes.GetABI().Pack("increaseBridgeFee", ch, new(big.Int).SetUint64(poolID), t.ERC20, amt)
			call.Note = fmt.Sprintf("crosschain.increaseBridgeFee(own,%d)", st.Amt)
			touchesBefore = touchesBefore || sawTokenWrite
		case "execclaim":
			if claim == 0 {
				continue
			}
			call.Target = sim.CrosschainAddr
			call.Data, _ = crosschaintypes.GetABI().Pack("executeClaim", ch, new(big.Int).SetUint64(claim))
			call.Note = "crosschain.executeClaim(deposit to self)"
			touchesBefore = touchesBefore || sawTokenWrite
		}
		s.Calls = append(s.Calls, call)
		stepAmt = append(stepAmt, st.Amt)
		stepKind = append(stepKind, st.Kind)
		if st.Kind == "crosschain" || st.Kind == "incfee" {
			sawTokenWrite = true
		}
	}
	if len(s.Calls) == 0 {
		rec.Case("", false, "B", "B:empty")
		return nil
	}
	r, outs := f.RunScript(ctx, u, R, s, nil, 8_000_000)
	if r.Panic != "" {
		return failf("C08/panic/"+panicSite(r.Panic), "program panicked: %s\n%s", trimStack(r.Panic), s.String())
	}
	desc := fmt.Sprintf("after program (tx success=%v, outcomes=%v):\n%s", r.Success(), outcomeBits(outs), s.String())
	if r.Success() {
		for i, call := range s.Calls {
			if i < len(outs) && outs[i].Success && strings.Contains(call.Note, ".transfer(erc20 module,") {
				if e.donated[t.ERC20] == nil {
					e.donated[t.ERC20] = new(big.Int)
				}
				e.donated[t.ERC20].Add(e.donated[t.ERC20], big.NewInt(stepAmt[i]))
			}
		}
	}
	if fl := e.invariants(ctx, desc); fl != nil {
		// a token write followed, in the same successful transaction, by a precompile call whose conversion runs a
		// nested EVM execution on that token: classify by the first such precompile step
		if r.Success() {
			wrote := false
			for i, call := range s.Calls {
				if i >= len(outs) || !outs[i].Success {
					continue
				}
				if wrote && call.Target == sim.CrosschainAddr {
					fl.Sig = "C08/nested-evm-overlap/" + t.Kind + "/" + stepKind[i]
					return fl
				}
				// direct token calls, and the precompile methods that move the token through the RUNNING EVM
				// (crossChain, increaseBridgeFee), leave dirty token slots in the outer state DB
				if call.Target == t.ERC20 || stepKind[i] == "crosschain" || stepKind[i] == "incfee" {
					wrote = true
				}
			}
		}
		fl.Sig += "/program:" + programShape(c.Program, outs)
		return fl
	}
	rec.Case(ev.Sig("B", s.String()), touchesBefore && r.Success(), "B", "B:token:"+t.Kind, fmt.Sprintf("B:tx-success:%v", r.Success()))
	if touchesBefore && r.Success() && rec.WantSample() {
		rec.Sample(map[string]interface{}{"program": s.String(), "case": c})
	}
	return nil
}

func outcomeBits(outs []evmprog.Outcome) string {
	s := ""
	for _, o := range outs {
		if o.Success {
			s += "1"
		} else {
			s += "0"
		}
	}
	return s
}

// programShape: the kinds of the steps that succeeded, in order (stable classification for findings).
func programShape(p []c08Step, outs []evmprog.Outcome) string {
	var ks []string
	for i, st := range p {
		if i < len(outs) && outs[i].Success {
			ks = append(ks, st.Kind)
		}
	}
	return strings.Join(ks, ">")
}

func runC08(c c08Case, rec *ev.Recorder) *Failure {
	if len(c.Program) > 0 {
		return runC08B(c, rec)
	}
	return runC08A(c, rec)
}

func init() { registerReplay("C08", runC08) }

func TestC08A(t *testing.T) { drive(t, "C08", genC08A, runC08) }
func TestC08B(t *testing.T) { drive(t, "C08", genC08B, runC08) }
