package props

import (
	"testing"

	"pgregory.net/rapid"

	"verif/harness/ev"
)

func genC01(t *rapid.T) omCase {
	if thorough() {
		return genOmCase(t, 8, 80)
	}
	return genOmCase(t, 5, 40)
}

func genC02(t *rapid.T) omCase {
	if thorough() {
		return genOmCase(t, 20, 80)
	}
	return genOmCase(t, 12, 40)
}

func runC01(c omCase, rec *ev.Recorder) *Failure { return runOracleMachine(c, "C01", rec) }
func runC02(c omCase, rec *ev.Recorder) *Failure { return runOracleMachine(c, "C02", rec) }

func init() {
	registerReplay("C01", runC01)
	registerReplay("C02", runC02)
}

func TestC01(t *testing.T) { drive(t, "C01", genC01, runC01) }
func TestC02(t *testing.T) { drive(t, "C02", genC02, runC02) }
