package props

import (
	"bytes"
	"encoding/hex"
	"encoding/json"
	"fmt"
	"testing"

	sdkmath "cosmossdk.io/math"
	"github.com/cosmos/gogoproto/proto"
	"pgregory.net/rapid"

	crosschaintypes "github.com/functionx/fx-core/v8/x/crosschain/types"

	"verif/harness/ev"
	"verif/harness/sim"
)

// ---------------------------------------------------------------------------------------------
// C03 — two claims for one event nonce are tallied together only if they agree on every field
// that influences what is executed.
//
// (A) pure metamorphic relation: valid claim c, sibling c' (also valid) that differs in exactly
//     one execution-relevant field, or re-splits two adjacent free-form fields, or moves a list
//     element => ClaimHash(c) != ClaimHash(c').
// (B) message level on the real keepers: oracle 0 votes c, oracle 1 votes c', ... — an event may
//     only become observed when the oracles that voted for exactly that content hold >= 66 %.
// ---------------------------------------------------------------------------------------------

type c03Case struct {
	Type     string `json:"type"`
	Chain    string `json:"chain"`
	A        string `json:"claim_a_hex"` // proto bytes
	B        string `json:"claim_b_hex"`
	Mutation string `json:"mutation"`
	Stateful bool   `json:"stateful"`
}

var c03Types = []string{"SendToFx", "BridgeCall", "BridgeCallResult", "SendToExternal", "BridgeToken", "OracleSetUpdated"}

var c03Alphabet = []rune("ab/ []0:\"\\%,")

func c03Free(t *rapid.T, label string, min int) string {
	return rapid.StringOfN(rapid.RuneFrom(c03Alphabet), min, 8, -1).Draw(t, label)
}

func c03Hex(t *rapid.T, label string) string {
	return hex.EncodeToString(rapid.SliceOfN(rapid.Byte(), 0, 6).Draw(t, label))
}

// c03Routes are deposit targets that mean something to fxcore (module, chain and IBC routes in every spelling the target
// parser knows, and near misses of them); claims carry them hex-encoded.
var c03Routes = []string{"", "erc20", "module/evm", "chain/gravity", "gravity", "eth", "chain/eth", "bsc", "chain/bsc", "tron", "ibc/0/px", "px/transfer/channel-0",
	"ibc/px/transfer/channel-0", "channel-0/px", "transfer/channel-0", "ibc/1/px", "px/transfer/channel-1", "ibc/0/cosmos", "cosmos/transfer/channel-0", "0/px", "ibc/0", "PX/transfer/channel-0", "ERC20"}

func c03Target(t *rapid.T, label string) string {
	if rapid.Bool().Draw(t, label+".route") {
		return hex.EncodeToString([]byte(rapid.SampledFrom(c03Routes).Draw(t, label)))
	}
	return c03Hex(t, label)
}

func c03ExtAddr(t *rapid.T, chain, label string) string {
	return sim.ExtAddrN(chain, "c03", rapid.IntRange(0, 5).Draw(t, label))
}

func c03Amount(t *rapid.T, label string) sdkmath.Int {
	return sdkmath.NewInt(rapid.Int64Range(0, 1000).Draw(t, label))
}

func c03NewClaim(typ string) crosschaintypes.ExternalClaim {
	switch typ {
	case "SendToFx":
		return &crosschaintypes.MsgSendToFxClaim{}
	case "BridgeCall":
		return &crosschaintypes.MsgBridgeCallClaim{}
	case "BridgeCallResult":
		return &crosschaintypes.MsgBridgeCallResultClaim{}
	case "SendToExternal":
		return &crosschaintypes.MsgSendToExternalClaim{}
	case "BridgeToken":
		return &crosschaintypes.MsgBridgeTokenClaim{}
	case "OracleSetUpdated":
		return &crosschaintypes.MsgOracleSetUpdatedClaim{}
	}
	panic(typ)
}

// c03Gen draws a valid claim of the type.
func c03Gen(t *rapid.T, typ, chain string, f *sim.Fixture) crosschaintypes.ExternalClaim {
	bridger := f.Oracles[chain][0].Bridger.Acc().String()
	nonce := uint64(rapid.IntRange(1, 5).Draw(t, "nonce"))
	height := uint64(rapid.IntRange(1, 1000).Draw(t, "height"))
	var c crosschaintypes.ExternalClaim
	switch typ {
	case "SendToFx":
		c = &crosschaintypes.MsgSendToFxClaim{
			TokenContract: c03ExtAddr(t, chain, "token"), Amount: c03Amount(t, "amount"), Sender: c03ExtAddr(t, chain, "sender"),
			Receiver: f.Users[rapid.IntRange(0, 3).Draw(t, "recv")].Acc().String(), TargetIbc: c03Target(t, "target"),
		}
	case "BridgeCall":
		n := rapid.IntRange(0, 3).Draw(t, "ntokens")
		m := &crosschaintypes.MsgBridgeCallClaim{
			Sender: c03ExtAddr(t, chain, "sender"), Refund: c03ExtAddr(t, chain, "refund"), To: c03ExtAddr(t, chain, "to"),
			Data: c03Hex(t, "data"), Value: c03Amount(t, "value"), Memo: c03Hex(t, "memo"), TxOrigin: c03ExtAddr(t, chain, "origin"),
		}
		for i := 0; i < n; i++ {
			m.TokenContracts = append(m.TokenContracts, c03ExtAddr(t, chain, "tc"))
			m.Amounts = append(m.Amounts, c03Amount(t, "ta"))
		}
		c = m
	case "BridgeCallResult":
		c = &crosschaintypes.MsgBridgeCallResultClaim{
			Nonce: uint64(rapid.IntRange(1, 9).Draw(t, "callnonce")), TxOrigin: c03ExtAddr(t, chain, "origin"),
			Success: rapid.Bool().Draw(t, "success"), Cause: c03Hex(t, "cause"),
		}
	case "SendToExternal":
		c = &crosschaintypes.MsgSendToExternalClaim{BatchNonce: uint64(rapid.IntRange(1, 9).Draw(t, "batch")), TokenContract: c03ExtAddr(t, chain, "token")}
	case "BridgeToken":
		c = &crosschaintypes.MsgBridgeTokenClaim{
			TokenContract: c03ExtAddr(t, chain, "token"), Name: c03Free(t, "name", 1), Symbol: c03Free(t, "symbol", 1),
			Decimals: uint64(rapid.IntRange(0, 30).Draw(t, "dec")), ChannelIbc: c03Hex(t, "chan"),
		}
	case "OracleSetUpdated":
		n := rapid.IntRange(1, 4).Draw(t, "nmembers")
		m := &crosschaintypes.MsgOracleSetUpdatedClaim{OracleSetNonce: uint64(rapid.IntRange(0, 9).Draw(t, "osn"))}
		for i := 0; i < n; i++ {
			m.Members = append(m.Members, crosschaintypes.BridgeValidator{Power: uint64(rapid.IntRange(1, 1000).Draw(t, "pw")), ExternalAddress: c03ExtAddr(t, chain, "mem")})
		}
		c = m
	}
	sim.SetClaimMeta(c, chain, bridger, nonce, height)
	return c
}

func cloneClaim(c crosschaintypes.ExternalClaim) crosschaintypes.ExternalClaim {
	bz, err := proto.Marshal(c)
	if err != nil {
		panic(err)
	}
	n := reflectNew(c)
	if err := proto.Unmarshal(bz, n); err != nil {
		panic(err)
	}
	return n.(crosschaintypes.ExternalClaim)
}

func otherAddr(chain, cur string) string {
	for i := 10; i < 13; i++ {
		if a := sim.ExtAddrN(chain, "c03", i); a != cur {
			return a
		}
	}
	panic("no other addr")
}

func flipHex(s string) string {
	if s == "" {
		return "ab"
	}
	if s[len(s)-1] == '0' {
		return s[:len(s)-1] + "1"
	}
	return s[:len(s)-1] + "0"
}

// c03Mutations lists the sibling constructions for a claim; each returns the mutated copy.
func c03Mutations(c crosschaintypes.ExternalClaim, chain string) map[string]func(*rapid.T) crosschaintypes.ExternalClaim {
	ms := map[string]func(*rapid.T) crosschaintypes.ExternalClaim{}
	switch c.(type) {
	case *crosschaintypes.MsgSendToFxClaim:
		mut := func(f func(m *crosschaintypes.MsgSendToFxClaim)) func(*rapid.T) crosschaintypes.ExternalClaim {
			return func(*rapid.T) crosschaintypes.ExternalClaim {
				n := cloneClaim(c).(*crosschaintypes.MsgSendToFxClaim)
				f(n)
				return n
			}
		}
		ms["field=token_contract"] = mut(func(m *crosschaintypes.MsgSendToFxClaim) { m.TokenContract = otherAddr(chain, m.TokenContract) })
		ms["field=amount"] = mut(func(m *crosschaintypes.MsgSendToFxClaim) { m.Amount = m.Amount.AddRaw(1) })
		ms["field=sender"] = mut(func(m *crosschaintypes.MsgSendToFxClaim) { m.Sender = otherAddr(chain, m.Sender) })
		ms["field=receiver"] = mut(func(m *crosschaintypes.MsgSendToFxClaim) {
			m.Receiver = sim.CosmosKey("c03recv", len(m.Receiver)).Acc().String()
		})
		ms["field=target_ibc"] = mut(func(m *crosschaintypes.MsgSendToFxClaim) { m.TargetIbc = flipHex(m.TargetIbc) })
		ms["field=target_ibc/route"] = func(t *rapid.T) crosschaintypes.ExternalClaim {
			// another meaningful route (a different spelling, a neighbouring channel, the module instead of the chain ...)
			n := cloneClaim(c).(*crosschaintypes.MsgSendToFxClaim)
			for _, r := range rapid.Permutation(c03Routes).Draw(t, "route") {
				if h := hex.EncodeToString([]byte(r)); h != n.TargetIbc {
					n.TargetIbc = h
					break
				}
			}
			return n
		}
		ms["field=block_height"] = mut(func(m *crosschaintypes.MsgSendToFxClaim) { m.BlockHeight++ })
	case *crosschaintypes.MsgBridgeCallClaim:
		mut := func(f func(m *crosschaintypes.MsgBridgeCallClaim)) func(*rapid.T) crosschaintypes.ExternalClaim {
			return func(*rapid.T) crosschaintypes.ExternalClaim {
				n := cloneClaim(c).(*crosschaintypes.MsgBridgeCallClaim)
				f(n)
				return n
			}
		}
		ms["field=sender"] = mut(func(m *crosschaintypes.MsgBridgeCallClaim) { m.Sender = otherAddr(chain, m.Sender) })
		ms["field=refund"] = mut(func(m *crosschaintypes.MsgBridgeCallClaim) { m.Refund = otherAddr(chain, m.Refund) })
		ms["field=to"] = mut(func(m *crosschaintypes.MsgBridgeCallClaim) { m.To = otherAddr(chain, m.To) })
		ms["field=data"] = mut(func(m *crosschaintypes.MsgBridgeCallClaim) { m.Data = flipHex(m.Data) })
		ms["field=value"] = mut(func(m *crosschaintypes.MsgBridgeCallClaim) { m.Value = m.Value.AddRaw(1) })
		ms["field=memo"] = mut(func(m *crosschaintypes.MsgBridgeCallClaim) { m.Memo = flipHex(m.Memo) })
		ms["field=tx_origin"] = mut(func(m *crosschaintypes.MsgBridgeCallClaim) { m.TxOrigin = otherAddr(chain, m.TxOrigin) })
		ms["field=block_height"] = mut(func(m *crosschaintypes.MsgBridgeCallClaim) { m.BlockHeight++ })
		ms["field=token_contracts[+1]"] = mut(func(m *crosschaintypes.MsgBridgeCallClaim) {
			m.TokenContracts = append(m.TokenContracts, sim.ExtAddrN(chain, "c03", 20))
			m.Amounts = append(m.Amounts, sdkmath.NewInt(7))
		})
		if m0 := c.(*crosschaintypes.MsgBridgeCallClaim); len(m0.TokenContracts) > 0 {
			ms["field=amounts[0]"] = mut(func(m *crosschaintypes.MsgBridgeCallClaim) { m.Amounts[0] = m.Amounts[0].AddRaw(1) })
			ms["field=token_contracts[0]"] = mut(func(m *crosschaintypes.MsgBridgeCallClaim) {
				m.TokenContracts[0] = otherAddr(chain, m.TokenContracts[0])
			})
		}
		if m0 := c.(*crosschaintypes.MsgBridgeCallClaim); len(m0.TokenContracts) > 1 && (m0.TokenContracts[0] != m0.TokenContracts[1] || !m0.Amounts[0].Equal(m0.Amounts[1])) {
			ms["swap=tokens[0,1]"] = mut(func(m *crosschaintypes.MsgBridgeCallClaim) {
				m.TokenContracts[0], m.TokenContracts[1] = m.TokenContracts[1], m.TokenContracts[0]
				m.Amounts[0], m.Amounts[1] = m.Amounts[1], m.Amounts[0]
			})
		}
		// re-split data|memo: move the last byte of data to the front of memo (both stay hex)
		if m0 := c.(*crosschaintypes.MsgBridgeCallClaim); len(m0.Data) >= 2 {
			ms["resplit=data|memo"] = mut(func(m *crosschaintypes.MsgBridgeCallClaim) {
				m.Memo = m.Data[len(m.Data)-2:] + m.Memo
				m.Data = m.Data[:len(m.Data)-2]
			})
		}
	case *crosschaintypes.MsgBridgeCallResultClaim:
		mut := func(f func(m *crosschaintypes.MsgBridgeCallResultClaim)) func(*rapid.T) crosschaintypes.ExternalClaim {
			return func(*rapid.T) crosschaintypes.ExternalClaim {
				n := cloneClaim(c).(*crosschaintypes.MsgBridgeCallResultClaim)
				f(n)
				return n
			}
		}
		ms["field=nonce"] = mut(func(m *crosschaintypes.MsgBridgeCallResultClaim) { m.Nonce++ })
		ms["field=tx_origin"] = mut(func(m *crosschaintypes.MsgBridgeCallResultClaim) { m.TxOrigin = otherAddr(chain, m.TxOrigin) })
		ms["field=success"] = mut(func(m *crosschaintypes.MsgBridgeCallResultClaim) { m.Success = !m.Success })
		ms["field=cause"] = mut(func(m *crosschaintypes.MsgBridgeCallResultClaim) { m.Cause = flipHex(m.Cause) })
		ms["field=block_height"] = mut(func(m *crosschaintypes.MsgBridgeCallResultClaim) { m.BlockHeight++ })
	case *crosschaintypes.MsgSendToExternalClaim:
		mut := func(f func(m *crosschaintypes.MsgSendToExternalClaim)) func(*rapid.T) crosschaintypes.ExternalClaim {
			return func(*rapid.T) crosschaintypes.ExternalClaim {
				n := cloneClaim(c).(*crosschaintypes.MsgSendToExternalClaim)
				f(n)
				return n
			}
		}
		ms["field=batch_nonce"] = mut(func(m *crosschaintypes.MsgSendToExternalClaim) { m.BatchNonce++ })
		ms["field=token_contract"] = mut(func(m *crosschaintypes.MsgSendToExternalClaim) { m.TokenContract = otherAddr(chain, m.TokenContract) })
		ms["field=block_height"] = mut(func(m *crosschaintypes.MsgSendToExternalClaim) { m.BlockHeight++ })
	case *crosschaintypes.MsgBridgeTokenClaim:
		mut := func(f func(m *crosschaintypes.MsgBridgeTokenClaim, t *rapid.T)) func(*rapid.T) crosschaintypes.ExternalClaim {
			return func(t *rapid.T) crosschaintypes.ExternalClaim {
				n := cloneClaim(c).(*crosschaintypes.MsgBridgeTokenClaim)
				f(n, t)
				return n
			}
		}
		ms["field=token_contract"] = mut(func(m *crosschaintypes.MsgBridgeTokenClaim, _ *rapid.T) {
			m.TokenContract = otherAddr(chain, m.TokenContract)
		})
		ms["field=name"] = mut(func(m *crosschaintypes.MsgBridgeTokenClaim, _ *rapid.T) { m.Name += "x" })
		ms["field=symbol"] = mut(func(m *crosschaintypes.MsgBridgeTokenClaim, _ *rapid.T) { m.Symbol += "x" })
		ms["field=decimals"] = mut(func(m *crosschaintypes.MsgBridgeTokenClaim, _ *rapid.T) { m.Decimals++ })
		ms["field=channel_ibc"] = mut(func(m *crosschaintypes.MsgBridgeTokenClaim, _ *rapid.T) { m.ChannelIbc = flipHex(m.ChannelIbc) })
		ms["field=block_height"] = mut(func(m *crosschaintypes.MsgBridgeTokenClaim, _ *rapid.T) { m.BlockHeight++ })
		m0 := c.(*crosschaintypes.MsgBridgeTokenClaim)
		if len(m0.Name) >= 2 {
			// constructed in genC03 (A is rebuilt so that name + "/" + symbol is the same text in both)
			ms["resplit=name|symbol"] = mut(func(m *crosschaintypes.MsgBridgeTokenClaim, _ *rapid.T) {})
		}
	case *crosschaintypes.MsgOracleSetUpdatedClaim:
		mut := func(f func(m *crosschaintypes.MsgOracleSetUpdatedClaim)) func(*rapid.T) crosschaintypes.ExternalClaim {
			return func(*rapid.T) crosschaintypes.ExternalClaim {
				n := cloneClaim(c).(*crosschaintypes.MsgOracleSetUpdatedClaim)
				f(n)
				return n
			}
		}
		ms["field=oracle_set_nonce"] = mut(func(m *crosschaintypes.MsgOracleSetUpdatedClaim) { m.OracleSetNonce++ })
		ms["field=members[0].power"] = mut(func(m *crosschaintypes.MsgOracleSetUpdatedClaim) { m.Members[0].Power++ })
		ms["field=members[0].address"] = mut(func(m *crosschaintypes.MsgOracleSetUpdatedClaim) {
			m.Members[0].ExternalAddress = otherAddr(chain, m.Members[0].ExternalAddress)
		})
		ms["field=members[+1]"] = mut(func(m *crosschaintypes.MsgOracleSetUpdatedClaim) {
			m.Members = append(m.Members, crosschaintypes.BridgeValidator{Power: 3, ExternalAddress: sim.ExtAddrN(chain, "c03", 21)})
		})
		ms["field=block_height"] = mut(func(m *crosschaintypes.MsgOracleSetUpdatedClaim) { m.BlockHeight++ })
		if m0 := c.(*crosschaintypes.MsgOracleSetUpdatedClaim); len(m0.Members) > 1 && m0.Members[0] != m0.Members[1] {
			ms["swap=members[0,1]"] = mut(func(m *crosschaintypes.MsgOracleSetUpdatedClaim) {
				m.Members[0], m.Members[1] = m.Members[1], m.Members[0]
			})
		}
	}
	return ms
}

func genC03(t *rapid.T) c03Case {
	f := base()
	typ := rapid.SampledFrom(c03Types).Draw(t, "type")
	chain := rapid.SampledFrom(baseChains).Draw(t, "chain")
	a := c03Gen(t, typ, chain, f)
	ms := c03Mutations(a, chain)
	names := sortedKeys(ms)
	name := rapid.SampledFrom(names).Draw(t, "mutation")
	// the name|symbol re-split needs the joined text to stay equal: construct A so that it does
	var b crosschaintypes.ExternalClaim
	if name == "resplit=name|symbol" {
		m := cloneClaim(a).(*crosschaintypes.MsgBridgeTokenClaim)
		k := rapid.IntRange(1, len(m.Name)-1).Draw(t, "split")
		// a: name = X + "/" + Y, symbol = S ; b: name = X, symbol = Y + "/" + S
		x, y := m.Name[:k], m.Name[k:]
		am := cloneClaim(a).(*crosschaintypes.MsgBridgeTokenClaim)
		am.Name = x + "/" + y
		a = am
		m.Name, m.Symbol = x, y+"/"+am.Symbol
		b = m
	} else {
		b = ms[name](t)
	}
	stateful := (typ == "SendToFx" || typ == "BridgeCall" || typ == "BridgeCallResult" || typ == "BridgeToken") && rapid.IntRange(0, 3).Draw(t, "stateful") == 0
	abz, _ := proto.Marshal(a)
	bbz, _ := proto.Marshal(b)
	return c03Case{Type: typ, Chain: chain, A: hex.EncodeToString(abz), B: hex.EncodeToString(bbz), Mutation: name, Stateful: stateful}
}

func c03Decode(typ, h string) (crosschaintypes.ExternalClaim, error) {
	bz, err := hex.DecodeString(h)
	if err != nil {
		return nil, err
	}
	c := c03NewClaim(typ)
	if err := proto.Unmarshal(bz, c); err != nil {
		return nil, err
	}
	return c, nil
}

func runC03(c c03Case, rec *ev.Recorder) *Failure {
	a, err := c03Decode(c.Type, c.A)
	if err != nil {
		return failf("harness", "decode a: %v", err)
	}
	b, err := c03Decode(c.Type, c.B)
	if err != nil {
		return failf("harness", "decode b: %v", err)
	}
	if err := a.ValidateBasic(); err != nil {
		rec.Case("", false, "invalid-a")
		return nil
	}
	if err := b.ValidateBasic(); err != nil {
		rec.Case("", false, "invalid-b")
		return nil
	}
	sig := "C03/" + c.Type + "/" + c.Mutation
	aj, _ := json.Marshal(a)
	bj, _ := json.Marshal(b)
	if bytes.Equal(aj, bj) {
		rec.Case("", false, "identical")
		return nil
	}
	if bytes.Equal(a.ClaimHash(), b.ClaimHash()) {
		return failf(sig, "claims differ (%s) but have the same ClaimHash %x:\n a=%s\n b=%s", c.Mutation, a.ClaimHash(), aj, bj)
	}
	labels := []string{"type:" + c.Type, "mut:" + c.Type + "/" + c.Mutation}
	if c.Stateful {
		if f := c03Stateful(c, a, b); f != nil {
			return f
		}
		labels = append(labels, "stateful")
	}
	rec.Case(ev.Sig(c.Type, c.Mutation, c.Stateful), true, labels...)
	if rec.WantSample() {
		rec.Sample(map[string]interface{}{"type": c.Type, "mutation": c.Mutation, "a": json.RawMessage(aj), "b": json.RawMessage(bj)})
	}
	return nil
}

// c03Stateful: 3 equal oracles (2 of 3 reach 66 %). Oracle 0 votes a, oracle 1 votes b: nothing may
// be observed (each content has one third). Oracle 2 votes b: observed, and what was applied is b.
func c03Stateful(c c03Case, a, b crosschaintypes.ExternalClaim) *Failure {
	f := base()
	ctx, _ := f.Ctx.CacheContext()
	k := f.Keeper(c.Chain)
	nonce := k.GetLastObservedEventNonce(ctx) + 1
	height := a.GetBlockHeight()
	hb := b.GetBlockHeight()
	sig := "C03/" + c.Type + "/" + c.Mutation + "/tally"
	if r := f.Vote(ctx, c.Chain, 0, a, nonce, height); !r.OK() {
		return nil // the claim is rejected by stateful checks (e.g. oracle set members): nothing to tally
	}
	if got := k.GetLastObservedEventNonce(ctx); got != nonce-1 {
		return failf(sig, "observed after a single vote of 1/3 power")
	}
	if r := f.Vote(ctx, c.Chain, 1, b, nonce, hb); !r.OK() {
		return nil
	}
	if got := k.GetLastObservedEventNonce(ctx); got != nonce-1 {
		aj, _ := json.Marshal(a)
		bj, _ := json.Marshal(b)
		return failf(sig, "event nonce %d observed after oracle 0 voted for A and oracle 1 voted for a different B (each 1/3 of the power):\n a=%s\n b=%s", nonce, aj, bj)
	}
	if r := f.Vote(ctx, c.Chain, 2, b, nonce, hb); !r.OK() {
		return failf(sig, "third vote failed: %v %s", r.Err, r.Panic)
	}
	if got := k.GetLastObservedEventNonce(ctx); got != nonce {
		return failf(sig, "not observed although 2/3 of the power voted for B")
	}
	// what was applied must be B (for parked claim types: the pending claim equals B field for field)
	switch c.Type {
	case "SendToFx", "BridgeCall", "BridgeCallResult":
		p, found := k.GetPendingExecuteClaim(ctx, nonce)
		if !found {
			return failf(sig, "no pending claim for observed nonce %d", nonce)
		}
		want := cloneClaim(b)
		got := cloneClaim(p)
		sim.SetClaimMeta(want, c.Chain, "", nonce, hb)
		sim.SetClaimMeta(got, c.Chain, "", nonce, got.GetBlockHeight())
		wj, _ := json.Marshal(want)
		gj, _ := json.Marshal(got)
		if !bytes.Equal(wj, gj) {
			return failf(sig, "the applied event differs from the one the quorum voted for:\n voted=%s\n applied=%s", wj, gj)
		}
	case "BridgeToken":
		bt := b.(*crosschaintypes.MsgBridgeTokenClaim)
		denom := crosschaintypes.NewBridgeDenom(c.Chain, bt.TokenContract)
		at := a.(*crosschaintypes.MsgBridgeTokenClaim)
		if at.TokenContract != bt.TokenContract && k.HasBridgeToken(ctx, crosschaintypes.NewBridgeDenom(c.Chain, at.TokenContract)) && !base().Keeper(c.Chain).HasBridgeToken(base().Ctx, crosschaintypes.NewBridgeDenom(c.Chain, at.TokenContract)) {
			return failf(sig, "token of the minority claim A was registered")
		}
		_ = denom
	}
	return nil
}

func sortedKeys[V any](m map[string]V) []string {
	ks := make([]string, 0, len(m))
	for k := range m {
		ks = append(ks, k)
	}
	sortStrings(ks)
	return ks
}

func init() { registerReplay("C03", runC03) }

func TestC03(t *testing.T) {
	drive(t, "C03", genC03, runC03)
}

var _ = fmt.Sprintf
