package props

import (
	"fmt"
	"testing"
	"time"

	sdkmath "cosmossdk.io/math"
	sdk "github.com/cosmos/cosmos-sdk/types"
	distrtypes "github.com/cosmos/cosmos-sdk/x/distribution/types"
	govv1 "github.com/cosmos/cosmos-sdk/x/gov/types/v1"
	stakingtypes "github.com/cosmos/cosmos-sdk/x/staking/types"
	"pgregory.net/rapid"

	"github.com/functionx/fx-core/v8/contract"
	fxtypes "github.com/functionx/fx-core/v8/types"
	crosschaintypes "github.com/functionx/fx-core/v8/x/crosschain/types"
	fxevmtypes "github.com/functionx/fx-core/v8/x/evm/types"
	fxgovtypes "github.com/functionx/fx-core/v8/x/gov/types"

	"verif/harness/ev"
	"verif/harness/sim"
)

// ---------------------------------------------------------------------------------------------
// C07 — block processing never halts. A fresh chain per case; operations are applied to the block
// being built (real handlers) and every "block" step runs the real FinalizeBlock + Commit with all
// begin / end blockers. Oracle: FinalizeBlock and Commit neither return an error nor panic.
// ---------------------------------------------------------------------------------------------

type c07Op struct {
	Kind  string `json:"kind"`
	Chain int    `json:"chain"`
	U     int    `json:"u"`
	O     int    `json:"o"`
	Tok   int    `json:"tok"`
	Amt   int64  `json:"amt"`
	What  int    `json:"what"`
	Dt    int    `json:"dt"`
	Mask  uint32 `json:"mask"`
}

type c07Case struct {
	NumOracles   int     `json:"n_oracles"`
	NumChains    int     `json:"n_chains"`
	SignedWindow uint64  `json:"signed_window"`
	Ops          []c07Op `json:"ops"`
}

var c07Dts = []time.Duration{5 * time.Second, 5 * time.Second, 5 * time.Second, time.Hour, 15 * 24 * time.Hour, 22 * 24 * time.Hour}

func genC07(t *rapid.T) c07Case {
	c := c07Case{NumOracles: rapid.IntRange(2, 4).Draw(t, "oracles"), NumChains: rapid.IntRange(1, 2).Draw(t, "chains"), SignedWindow: rapid.Uint64Range(2, 6).Draw(t, "sw")}
	max := 45
	if thorough() {
		max = 90
	}
	n := rapid.IntRange(8, max).Draw(t, "n")
	kinds := []string{"block", "block", "block", "block", "block", "block", "deposit", "send", "batch", "bridgecall", "bridgecall", "confirm", "confirm", "proposal", "vote", "govoracles", "adddelegate", "unbond", "delegate", "absent"}
	for i := 0; i < n; i++ {
		c.Ops = append(c.Ops, c07Op{Kind: rapid.SampledFrom(kinds).Draw(t, "kind"), Chain: rapid.IntRange(0, 1).Draw(t, "chain"), U: rapid.IntRange(0, 2).Draw(t, "u"),
			O: rapid.IntRange(0, 3).Draw(t, "o"), Tok: rapid.IntRange(0, 2).Draw(t, "tok"), Amt: rapid.Int64Range(1, 3000).Draw(t, "amt"), What: rapid.IntRange(0, 9).Draw(t, "what"),
			Dt: rapid.IntRange(0, len(c07Dts)-1).Draw(t, "dt"), Mask: rapid.Uint32Range(1, 15).Draw(t, "mask")})
	}
	return c
}

func runC07(c c07Case, rec *ev.Recorder) *Failure {
	chains := []string{"eth", "tron"}[:c.NumChains]
	f := sim.NewFixture(sim.FixtureOptions{Chains: chains, Tokens: true, NumUsers: 3, OraclesPerChain: c.NumOracles})
	gov := sim.GovAddr.String()
	ctx := func() sdk.Context { return f.Ctx }
	for _, ch := range chains {
		p := f.Keeper(ch).GetParams(ctx())
		p.SignedWindow = c.SignedWindow
		if r := f.RunMsg(ctx(), &crosschaintypes.MsgUpdateParams{ChainName: ch, Authority: gov, Params: p}); !r.OK() {
			return failf("harness", "params: %v", r.Err)
		}
	}
	// user 0 carries the governance voting power
	if r := f.RunMsg(ctx(), stakingtypes.NewMsgDelegate(f.Users[0].Acc().String(), f.ValKeys[0].Val().String(), sim.FxCoin(50_000))); !r.OK() {
		return failf("harness", "delegate: %v", r.Err)
	}
	extH := map[string]uint64{}
	for _, ch := range chains {
		extH[ch] = 1000
	}
	// an initial deposit per chain: an external height is observed and user 0..2 hold the bridged token
	for _, ch := range chains {
		for i, uu := range f.Users {
			claim := &crosschaintypes.MsgSendToFxClaim{TokenContract: f.Token("USDT").Contracts[ch], Amount: sdkmath.NewInt(1_000_000), Sender: sim.ExtAddrN(ch, "ext", i), Receiver: uu.Acc().String()}
			n, err := f.Observe(ctx(), ch, claim, extH[ch])
			if err != nil {
				return failf("harness", "initial deposit: %v", err)
			}
			f.ExecuteClaim(ctx(), f.Users[1], ch, n)
		}
	}
	labels := map[string]bool{}
	var proposals []uint64
	blocks := 0
	agedUnconfirmed := false
	proposalEnded := false
	usdt, ext := f.Token("USDT"), f.Token("EXT")
	_ = ext
	checkAged := func() {
		// an online oracle has left an object older than the signed window unconfirmed
		for _, ch := range chains {
			k := f.Keeper(ch)
			h := uint64(ctx().BlockHeight())
			if h <= c.SignedWindow {
				continue
			}
			k.IterateOutgoingBridgeCalls(ctx(), func(oc *crosschaintypes.OutgoingBridgeCall) bool {
				if oc.BlockHeight+c.SignedWindow <= h {
					for _, o := range k.GetAllOracles(ctx(), true) {
						if !k.HasBridgeCallConfirm(ctx(), oc.Nonce, o.GetOracle()) {
							agedUnconfirmed = true
							labels["aged-unconfirmed-bridge-call"] = true
						}
					}
				}
				return false
			})
			for _, b := range k.GetOutgoingTxBatches(ctx()) {
				if b.Block+c.SignedWindow <= h {
					for _, o := range k.GetAllOracles(ctx(), true) {
						if k.GetBatchConfirm(ctx(), b.TokenContract, b.BatchNonce, o.GetOracle()) == nil {
							agedUnconfirmed = true
							labels["aged-unconfirmed-batch"] = true
						}
					}
				}
			}
			k.IterateOracleSets(ctx(), false, func(os *crosschaintypes.OracleSet) bool {
				if os.Height+c.SignedWindow <= h {
					for _, o := range k.GetAllOracles(ctx(), true) {
						if k.GetOracleSetConfirm(ctx(), os.Nonce, o.GetOracle()) == nil {
							agedUnconfirmed = true
							labels["aged-unconfirmed-oracle-set"] = true
						}
					}
				}
				return false
			})
		}
	}
	for si, op := range c.Ops {
		ch := chains[op.Chain%len(chains)]
		k := f.Keeper(ch)
		keys := f.Oracles[ch]
		u := f.Users[op.U%len(f.Users)]
		tok := f.Tokens[op.Tok%len(f.Tokens)]
		if _, ok := tok.Contracts[ch]; !ok {
			tok = usdt
		}
		desc := fmt.Sprintf("step %d %+v", si, op)
		switch op.Kind {
		case "block":
			checkAged()
			before := len(proposals)
			_ = before
			if _, err := f.NextBlock(nil, c07Dts[op.Dt%len(c07Dts)]); err != nil {
				site := panicSite(err.Error())
				return failf("C07/block-halts/"+site, "%s: block %d cannot be processed: %v\nhistory so far: %s", desc, f.Height+1, trimErr(err), c07History(c.Ops[:si+1]))
			}
			blocks++
			for _, id := range proposals {
				if p, err := f.App.GovKeeper.Proposals.Get(ctx(), id); err == nil && (p.Status == govv1.StatusPassed || p.Status == govv1.StatusFailed || p.Status == govv1.StatusRejected) {
					proposalEnded = true
					labels["proposal-ended:"+p.Status.String()] = true
				}
			}
		case "deposit":
			extH[ch] += uint64(op.What)
			claim := &crosschaintypes.MsgSendToFxClaim{TokenContract: usdt.Contracts[ch], Amount: sdkmath.NewInt(op.Amt * 1000), Sender: sim.ExtAddrN(ch, "ext", 1), Receiver: u.Acc().String()}
			if n, err := f.Observe(ctx(), ch, claim, extH[ch]); err == nil {
				f.ExecuteClaim(ctx(), f.Users[1], ch, n)
				labels["deposit"] = true
			}
		case "send":
			f.RunMsg(ctx(), &crosschaintypes.MsgSendToExternal{ChainName: ch, Sender: u.Acc().String(), Dest: sim.ExtAddrN(ch, "dest", 1), Amount: sdk.NewCoin(tok.Base, sdkmath.NewInt(op.Amt)), BridgeFee: sdk.NewCoin(tok.Base, sdkmath.NewInt(int64(1+op.What)))})
		case "batch":
			f.RunMsg(ctx(), &crosschaintypes.MsgSendToExternal{ChainName: ch, Sender: u.Acc().String(), Dest: sim.ExtAddrN(ch, "dest", 2), Amount: sdk.NewCoin(tok.Base, sdkmath.NewInt(op.Amt)), BridgeFee: sdk.NewCoin(tok.Base, sdkmath.NewInt(int64(100+si)))})
			if r := f.RunMsg(ctx(), &crosschaintypes.MsgRequestBatch{ChainName: ch, Sender: keys[0].Bridger.Acc().String(), Denom: tok.Bridge[ch], MinimumFee: sdkmath.NewInt(1), FeeReceive: sim.ExtAddrN(ch, "feercv", 1), BaseFee: sdkmath.ZeroInt()}); r.OK() {
				labels["batch"] = true
			}
		case "bridgecall":
			if r := f.RunMsg(ctx(), &crosschaintypes.MsgBridgeCall{ChainName: ch, Sender: u.Acc().String(), Refund: u.Acc().String(), To: sim.ExtAddrN(ch, "to", 1), Coins: sdk.NewCoins(sdk.NewCoin(usdt.Base, sdkmath.NewInt(op.Amt))), Data: "01", Value: sdkmath.ZeroInt()}); r.OK() {
				labels["bridgecall"] = true
			}
		case "confirm":
			// oracle o confirms pending objects selected by `what` (0-2: everything, 3: only oracle sets, 4: only batches, 5: only calls, 6+: nothing)
			ok := keys[op.O%len(keys)]
			if op.What <= 3 {
				k.IterateOracleSets(ctx(), false, func(os *crosschaintypes.OracleSet) bool {
					if m := f.OracleSetConfirmMsg(ctx(), ch, ok, os); m != nil {
						f.RunMsg(ctx(), m)
					}
					return false
				})
			}
			if op.What <= 2 || op.What == 4 {
				for _, b := range k.GetOutgoingTxBatches(ctx()) {
					if m := f.BatchConfirmMsg(ctx(), ch, ok, b); m != nil {
						f.RunMsg(ctx(), m)
					}
				}
			}
			if op.What <= 2 || op.What == 5 {
				k.IterateOutgoingBridgeCalls(ctx(), func(oc *crosschaintypes.OutgoingBridgeCall) bool {
					if m := f.BridgeCallConfirmMsg(ctx(), ch, ok, oc); m != nil {
						f.RunMsg(ctx(), m)
					}
					return false
				})
			}
		case "proposal":
			var msgs []sdk.Msg
			switch op.What {
			case 0: // text only
			case 1:
				p := k.GetParams(ctx())
				p.SignedWindow = uint64(2 + op.Amt%5)
				msgs = []sdk.Msg{&crosschaintypes.MsgUpdateParams{ChainName: ch, Authority: gov, Params: p}}
			case 2: // reverting contract call
				data, _ := contract.GetFIP20().ABI.Pack("mint", u.Hex(), sim.BigInt(5))
				msgs = []sdk.Msg{&fxevmtypes.MsgCallContract{Authority: gov, ContractAddress: usdt.ERC20.String(), Data: fmt.Sprintf("%x", data)}}
			case 3: // raw store update with a wrong old value
				msgs = []sdk.Msg{&fxgovtypes.MsgUpdateStore{Authority: gov, UpdateStores: []fxgovtypes.UpdateStore{{Space: ch, Key: "24", OldValue: "ffff", Value: "00"}}}}
			case 4: // oracle list shrinking by more than allowed
				msgs = []sdk.Msg{&crosschaintypes.MsgUpdateChainOracles{ChainName: ch, Authority: gov, Oracles: []string{keys[0].Oracle.Acc().String()}}}
			case 5: // over-spending the community pool
				msgs = []sdk.Msg{&distrtypes.MsgCommunityPoolSpend{Authority: gov, Recipient: u.Acc().String(), Amount: sdk.NewCoins(sim.FxCoin(1_000_000_000))}}
			case 6:
				msgs = []sdk.Msg{&fxgovtypes.MsgUpdateSwitchParams{Authority: gov, Params: fxgovtypes.SwitchParams{DisablePrecompiles: []string{contract.StakingAddress}}}}
			case 7: // two messages, the second fails
				p := k.GetParams(ctx())
				bad := p
				bad.SignedWindow = 0
				msgs = []sdk.Msg{&crosschaintypes.MsgUpdateParams{ChainName: ch, Authority: gov, Params: p}, &crosschaintypes.MsgUpdateParams{ChainName: ch, Authority: gov, Params: bad}}
			case 8: // oracle list change that is allowed (drop the last oracle if it is small enough, add a new one)
				var list []string
				for i, kk := range keys {
					if op.Mask&(1<<uint(i)) != 0 {
						list = append(list, kk.Oracle.Acc().String())
					}
				}
				list = append(list, sim.NewOracleKeys(ch, 9).Oracle.Acc().String())
				msgs = []sdk.Msg{&crosschaintypes.MsgUpdateChainOracles{ChainName: ch, Authority: gov, Oracles: list}}
			default:
				msgs = []sdk.Msg{&fxgovtypes.MsgUpdateCustomParams{Authority: gov, MsgUrl: "/fx.evm.v1.MsgCallContract", CustomParams: fxgovtypes.CustomParams{DepositRatio: "0.1", VotingPeriod: durPtr(time.Hour), Quorum: "0.2"}}}
			}
			dep := sim.FxCoin(10_000)
			if op.Amt%4 == 0 {
				dep = sim.FxCoin(1) // stays in the deposit period and is dropped later
			}
			m, err := govv1.NewMsgSubmitProposal(msgs, sdk.NewCoins(dep), u.Acc().String(), "", fmt.Sprintf("p%d", si), "summary", false)
			if err != nil {
				return failf("harness", "proposal: %v", err)
			}
			if r := f.RunMsg(ctx(), m); r.OK() {
				id, _ := f.App.GovKeeper.ProposalID.Peek(ctx())
				proposals = append(proposals, id-1)
				labels["proposal"] = true
				if op.Mask&3 != 0 { // mostly voted through right away by the account holding the voting power
					f.RunMsg(ctx(), govv1.NewMsgVote(f.Users[0].Acc(), id-1, govv1.OptionYes, ""))
				}
			}
		case "vote":
			if len(proposals) == 0 {
				break
			}
			id := proposals[op.What%len(proposals)]
			opt := []govv1.VoteOption{govv1.OptionYes, govv1.OptionYes, govv1.OptionNo, govv1.OptionNoWithVeto, govv1.OptionAbstain}[op.Amt%5]
			f.RunMsg(ctx(), govv1.NewMsgVote(f.Users[0].Acc(), id, opt, ""))
		case "govoracles":
			var list []string
			for i, kk := range keys {
				if op.Mask&(1<<uint(i)) != 0 {
					list = append(list, kk.Oracle.Acc().String())
				}
			}
			if len(list) > 0 {
				f.RunMsg(ctx(), &crosschaintypes.MsgUpdateChainOracles{ChainName: ch, Authority: gov, Oracles: list})
			}
		case "adddelegate":
			f.RunMsg(ctx(), &crosschaintypes.MsgAddDelegate{ChainName: ch, OracleAddress: keys[op.O%len(keys)].Oracle.Acc().String(), Amount: sim.FxCoin(op.Amt)})
		case "unbond":
			f.RunMsg(ctx(), &crosschaintypes.MsgUnbondedOracle{ChainName: ch, OracleAddress: keys[op.O%len(keys)].Oracle.Acc().String()})
		case "delegate":
			f.RunMsg(ctx(), stakingtypes.NewMsgDelegate(u.Acc().String(), f.ValKeys[op.O%len(f.ValKeys)].Val().String(), sim.FxCoin(op.Amt)))
		case "absent":
			if op.O%len(f.ValKeys) != 0 { // never the proposer
				f.Absent[op.O%len(f.ValKeys)] = op.What%2 == 0
			}
		}
	}
	// a few more blocks so that everything queued so far reaches its end blocker
	for i := 0; i < int(c.SignedWindow)+1; i++ {
		checkAged()
		if _, err := f.NextBlock(nil, 5*time.Second); err != nil {
			return failf("C07/block-halts/"+panicSite(err.Error()), "closing block %d cannot be processed: %v\nhistory: %s", f.Height+1, trimErr(err), c07History(c.Ops))
		}
		blocks++
	}
	nontrivial := agedUnconfirmed || proposalEnded
	var ls []string
	for l := range labels {
		ls = append(ls, l)
	}
	sortStrings(ls)
	rec.Label("blocks", blocks)
	rec.Case(ev.Sig(c.NumOracles, c.NumChains, c.SignedWindow, c07History(c.Ops)), nontrivial, ls...)
	if nontrivial && rec.WantSample() {
		rec.Sample(c)
	}
	return nil
}

func durPtr(d time.Duration) *time.Duration { return &d }

func trimErr(err error) string {
	s := err.Error()
	if len(s) > 2500 {
		s = s[:2500] + "…"
	}
	return s
}

func c07History(ops []c07Op) string {
	s := ""
	for _, o := range ops {
		switch o.Kind {
		case "block":
			s += fmt.Sprintf("block(+%s) ", c07Dts[o.Dt%len(c07Dts)])
		case "confirm":
			s += fmt.Sprintf("confirm(o%d,%d) ", o.O, o.What)
		case "proposal":
			s += fmt.Sprintf("proposal(%d) ", o.What)
		default:
			s += o.Kind + " "
		}
	}
	return s
}

func init() { registerReplay("C07", runC07) }

func TestC07(t *testing.T) { drive(t, "C07", genC07, runC07) }

var _ = fxtypes.DefaultDenom
