package props

import (
	"math/big"
	"sync"

	sdkmath "cosmossdk.io/math"
	sdk "github.com/cosmos/cosmos-sdk/types"
	distrtypes "github.com/cosmos/cosmos-sdk/x/distribution/types"
	"github.com/ethereum/go-ethereum/common"

	crosschaintypes "github.com/functionx/fx-core/v8/x/crosschain/types"

	"verif/harness/sim"
)

// base is a per-process deterministic fixture chain. Properties at message level never write to
// it: every case works on base.Ctx.CacheContext().
var (
	baseOnce sync.Once
	baseFx   *sim.Fixture
	// an FIP20 deployed by user 1 that is NOT registered as a token pair (for MsgRegisterERC20)
	baseUnregistered common.Address
)

var baseChains = []string{"eth", "bsc", "tron"}

func base() *sim.Fixture {
	baseOnce.Do(func() {
		f := sim.NewFixture(sim.FixtureOptions{Chains: baseChains, Tokens: true, NumUsers: 4, OraclesPerChain: 3})
		ctx := f.Ctx
		// community pool funds (for MsgCommunityPoolSpend)
		if err := f.App.DistrKeeper.FundCommunityPool(ctx, sdk.NewCoins(sim.FxCoin(50_000)), f.Users[3].Acc()); err != nil {
			panic(err)
		}
		_ = distrtypes.ModuleName
		addr, err := f.App.Erc20Keeper.DeployUpgradableToken(ctx, f.Users[1].Hex(), "Second Token", "SEC", 18)
		if err != nil {
			panic(err)
		}
		baseUnregistered = addr
		// initial holdings: users own some of every token
		ext := f.Token("EXT")
		for i, u := range f.Users {
			f.MintERC20(ctx, ext, u.Hex(), new(big.Int).Mul(big.NewInt(1000+int64(i)), big.NewInt(1e6)))
		}
		usdt := f.Token("USDT")
		for i, u := range f.Users {
			for _, ch := range f.Chains {
				claim := &crosschaintypes.MsgSendToFxClaim{
					TokenContract: usdt.Contracts[ch],
					Amount:        sdkmath.NewInt(int64(500+i) * 1e6),
					Sender:        sim.ExtAddrN(ch, "depositor", i),
					Receiver:      u.Acc().String(),
					TargetIbc:     "",
				}
				nonce, err := f.Observe(ctx, ch, claim, 200+uint64(i))
				if err != nil {
					panic(err)
				}
				if r := f.ExecuteClaim(ctx, f.Users[0], ch, nonce); !r.Success() {
					panic(r)
				}
			}
		}
		baseFx = f
	})
	return baseFx
}
