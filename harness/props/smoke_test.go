package props

import (
	"fmt"
	"testing"
	"time"

	"verif/harness/sim"
)

func TestSmoke(t *testing.T) {
	t0 := time.Now()
	f := sim.NewFixture(sim.FixtureOptions{Chains: []string{"eth", "bsc", "tron"}, Tokens: true})
	fmt.Println("fixture", time.Since(t0))
	for _, tk := range f.Tokens {
		fmt.Printf("%+v\n", *tk)
	}
	t0 = time.Now()
	d := f.DumpStores(f.Ctx)
	n := 0
	for _, m := range d {
		n += len(m)
	}
	fmt.Println("dump", time.Since(t0), n, "keys")
	for i := 0; i < 3; i++ {
		t0 = time.Now()
		if _, err := f.NextBlock(nil, 5*time.Second); err != nil {
			t.Fatal(err)
		}
		fmt.Println("block", time.Since(t0))
	}
}
