// Package abiref is an independent implementation of Solidity's abi.encode for the argument
// shapes used by the FxBridgeLogic checkpoints (bytes32, uint256, address, address[], uint256[],
// bytes), written from the Solidity ABI specification and the argument lists in
// solidity/contracts/bridge/FxBridgeLogic.sol (makeCheckpoint, submitBatch, bridgeCallSigHash).
// It deliberately shares no code with go-ethereum's accounts/abi or gotron's abi package.
package abiref

import (
	"math/big"

	"golang.org/x/crypto/sha3"
)

type Arg interface{ isArg() }

type Bytes32 [32]byte
type Uint struct{ V *big.Int } // unsigned, < 2^256
type Address [20]byte
type AddressArray []Address
type UintArray []*big.Int
type Bytes []byte

func (Bytes32) isArg()      {}
func (Uint) isArg()         {}
func (Address) isArg()      {}
func (AddressArray) isArg() {}
func (UintArray) isArg()    {}
func (Bytes) isArg()        {}

func word(v *big.Int) []byte {
	out := make([]byte, 32)
	b := v.Bytes() // big-endian magnitude
	if len(b) > 32 {
		b = b[len(b)-32:]
	}
	copy(out[32-len(b):], b)
	return out
}

func u(n uint64) []byte { return word(new(big.Int).SetUint64(n)) }

func addrWord(a Address) []byte {
	out := make([]byte, 32)
	copy(out[12:], a[:])
	return out
}

// Encode = abi.encode(args...) : heads (static value or offset), then tails of dynamic args.
func Encode(args ...Arg) []byte {
	headLen := uint64(32 * len(args))
	var head, tail []byte
	for _, a := range args {
		switch v := a.(type) {
		case Bytes32:
			head = append(head, v[:]...)
		case Uint:
			head = append(head, word(v.V)...)
		case Address:
			head = append(head, addrWord(v)...)
		case AddressArray:
			head = append(head, u(headLen+uint64(len(tail)))...)
			tail = append(tail, u(uint64(len(v)))...)
			for _, x := range v {
				tail = append(tail, addrWord(x)...)
			}
		case UintArray:
			head = append(head, u(headLen+uint64(len(tail)))...)
			tail = append(tail, u(uint64(len(v)))...)
			for _, x := range v {
				tail = append(tail, word(x)...)
			}
		case Bytes:
			head = append(head, u(headLen+uint64(len(tail)))...)
			tail = append(tail, u(uint64(len(v)))...)
			tail = append(tail, v...)
			if pad := (32 - len(v)%32) % 32; pad > 0 {
				tail = append(tail, make([]byte, pad)...)
			}
		}
	}
	return append(head, tail...)
}

func Keccak(b []byte) []byte {
	h := sha3.NewLegacyKeccak256()
	h.Write(b)
	return h.Sum(nil)
}

// Str32 is Solidity's bytes32 encoding of a short ASCII string (left aligned, zero padded).
func Str32(s string) Bytes32 {
	var out Bytes32
	copy(out[:], s)
	return out
}

func U64(n uint64) Uint { return Uint{new(big.Int).SetUint64(n)} }

// OracleSetCheckpoint = keccak256(abi.encode(fxBridgeId, "checkpoint", nonce, oracles, powers))
func OracleSetCheckpoint(gravityID string, nonce uint64, oracles []Address, powers []uint64) []byte {
	ps := make(UintArray, len(powers))
	for i, p := range powers {
		ps[i] = new(big.Int).SetUint64(p)
	}
	return Keccak(Encode(Str32(gravityID), Str32("checkpoint"), U64(nonce), AddressArray(oracles), ps))
}

// BatchCheckpoint = keccak256(abi.encode(fxBridgeId, "transactionBatch", amounts, destinations, fees, nonce, token, timeout, feeReceive))
func BatchCheckpoint(gravityID string, amounts []*big.Int, dests []Address, fees []*big.Int, nonce uint64, token Address, timeout uint64, feeReceive Address) []byte {
	return Keccak(Encode(Str32(gravityID), Str32("transactionBatch"), UintArray(amounts), AddressArray(dests), UintArray(fees), U64(nonce), token, U64(timeout), feeReceive))
}

// BridgeCallCheckpoint = keccak256(abi.encode(fxBridgeId, "bridgeCall", sender, refund, tokens, amounts, to, data, memo, nonce, timeout, eventNonce))
func BridgeCallCheckpoint(gravityID string, sender, refund Address, tokens []Address, amounts []*big.Int, to Address, data, memo []byte, nonce, timeout, eventNonce uint64) []byte {
	return Keccak(Encode(Str32(gravityID), Str32("bridgeCall"), sender, refund, AddressArray(tokens), UintArray(amounts), to, Bytes(data), Bytes(memo), U64(nonce), U64(timeout), U64(eventNonce)))
}
