package props

import (
	"encoding/hex"
	"fmt"
	"reflect"
	"sort"
	"strings"
	"sync"
	"testing"
	"time"

	sdkmath "cosmossdk.io/math"
	upgradetypes "cosmossdk.io/x/upgrade/types"
	sdk "github.com/cosmos/cosmos-sdk/types"
	authtypes "github.com/cosmos/cosmos-sdk/x/auth/types"
	banktypes "github.com/cosmos/cosmos-sdk/x/bank/types"
	distrtypes "github.com/cosmos/cosmos-sdk/x/distribution/types"
	minttypes "github.com/cosmos/cosmos-sdk/x/mint/types"
	slashingtypes "github.com/cosmos/cosmos-sdk/x/slashing/types"
	stakingtypes "github.com/cosmos/cosmos-sdk/x/staking/types"
	"github.com/cosmos/gogoproto/proto"
	evmtypes "github.com/evmos/ethermint/x/evm/types"
	feemarkettypes "github.com/evmos/ethermint/x/feemarket/types"
	"pgregory.net/rapid"

	"github.com/functionx/fx-core/v8/contract"
	fxtypes "github.com/functionx/fx-core/v8/types"
	crosschaintypes "github.com/functionx/fx-core/v8/x/crosschain/types"
	erc20types "github.com/functionx/fx-core/v8/x/erc20/types"
	fxevmtypes "github.com/functionx/fx-core/v8/x/evm/types"
	fxgovtypes "github.com/functionx/fx-core/v8/x/gov/types"

	"verif/harness/ev"
	"verif/harness/fill"
	"verif/harness/sim"
)

// ---------------------------------------------------------------------------------------------
// C16 — privileged messages take effect only when issued by the governance authority.
//
// Domain: every sdk.Msg registered in the app's interface registry that carries an authority
// (field `Authority`, or `Signer` for the ibc-go messages whose handler compares the signer with
// the keeper authority) and has a handler on the message router; payloads from valid templates
// built against the live state and from reflection fill; authorities of every non-governance
// shape. Oracle: specification (bytes(authority) != gov module address => error and the full
// multi-store dump unchanged); UpdateStore compare-and-set against a model of the store.
// ---------------------------------------------------------------------------------------------

type c16Case struct {
	TypeURL   string `json:"type_url"`
	Payload   string `json:"payload_hex"` // proto bytes, authority field overwritten at run time
	Authority string `json:"authority"`
	AuthKind  string `json:"auth_kind"`
	Mode      string `json:"mode"` // template | fill | store
	Chain     string `json:"chain,omitempty"`
}

// IBC messages gated by the keeper authority through their `signer` field.
var c16SignerGated = map[string]bool{
	"/ibc.applications.transfer.v1.MsgUpdateParams": true,
	"/ibc.core.client.v1.MsgUpdateParams":           true,
	"/ibc.core.client.v1.MsgRecoverClient":          true,
	"/ibc.core.client.v1.MsgIBCSoftwareUpgrade":     true,
	"/ibc.core.connection.v1.MsgUpdateParams":       true,
}

var (
	c16Once      sync.Once
	c16Types     []string // type urls in scope (sorted)
	c16NoHandler []string
)

func c16AuthorityField(m proto.Message) (reflect.Value, bool) {
	v := reflect.ValueOf(m).Elem()
	url := "/" + proto.MessageName(m)
	if c16SignerGated[url] {
		f := v.FieldByName("Signer")
		return f, f.IsValid()
	}
	f := v.FieldByName("Authority")
	return f, f.IsValid() && f.Kind() == reflect.String
}

func c16Enumerate() {
	c16Once.Do(func() {
		f := base()
		urls := f.App.InterfaceRegistry().ListImplementations(sdk.MsgInterfaceProtoName)
		sort.Strings(urls)
		for _, u := range urls {
			m, err := f.App.InterfaceRegistry().Resolve(u)
			if err != nil {
				continue
			}
			if _, ok := c16AuthorityField(m); !ok {
				continue
			}
			if f.App.MsgServiceRouter().HandlerByTypeURL(u) == nil {
				c16NoHandler = append(c16NoHandler, u)
				continue
			}
			c16Types = append(c16Types, u)
		}
	})
}

func fillEnv(f *sim.Fixture) *fill.Env {
	e := &fill.Env{ChainNames: append([]string{}, sim.AllChains...)}
	for _, u := range f.Users {
		e.AccAddrs = append(e.AccAddrs, u.Acc().String())
		e.HexAddrs = append(e.HexAddrs, u.Hex().String())
	}
	for _, ch := range f.Chains {
		for _, o := range f.Oracles[ch] {
			e.AccAddrs = append(e.AccAddrs, o.Oracle.Acc().String(), o.Bridger.Acc().String())
		}
	}
	for _, v := range f.ValKeys {
		e.ValAddrs = append(e.ValAddrs, v.Val().String())
		e.AccAddrs = append(e.AccAddrs, v.Acc().String())
	}
	e.Denoms = []string{fxtypes.DefaultDenom}
	for _, t := range f.Tokens {
		e.Denoms = append(e.Denoms, t.Base)
		e.HexAddrs = append(e.HexAddrs, t.ERC20.String())
		for _, ch := range f.Chains {
			if d, ok := t.Bridge[ch]; ok {
				e.Denoms = append(e.Denoms, d)
			}
			if c, ok := t.Contracts[ch]; ok && ch != "tron" {
				e.HexAddrs = append(e.HexAddrs, c)
			}
		}
	}
	e.AnyMsgs = []proto.Message{&banktypes.MsgSend{}, &crosschaintypes.MsgSendToFxClaim{}, &fxgovtypes.MsgUpdateSwitchParams{}, &distrtypes.MsgCommunityPoolSpend{}}
	return e
}

// c16Template builds a payload that is meant to succeed under the governance authority.
func c16Template(t *rapid.T, f *sim.Fixture, url string) (proto.Message, string) {
	ctx := f.Ctx
	chain := rapid.SampledFrom(sim.AllChains).Draw(t, "chain")
	switch url {
	case "/fx.gravity.crosschain.v1.MsgUpdateParams":
		p := f.Keeper(chain).GetParams(ctx)
		switch rapid.IntRange(0, 5).Draw(t, "field") {
		case 0:
			p.SignedWindow = rapid.Uint64Range(2, 100000).Draw(t, "sw")
		case 1:
			p.ExternalBatchTimeout = rapid.Uint64Range(60000, 1<<40).Draw(t, "bt")
		case 2:
			p.DelegateMultiple = rapid.Int64Range(1, 1000).Draw(t, "dm")
		case 3:
			p.BridgeCallMaxGasLimit = rapid.Uint64Range(0, 1<<40).Draw(t, "gl")
		case 4:
			p.SlashFraction = sdkmath.LegacyNewDecWithPrec(rapid.Int64Range(0, 100).Draw(t, "sf"), 2)
		case 5:
			p.DelegateThreshold = sdk.NewCoin(fxtypes.DefaultDenom, sdkmath.NewInt(rapid.Int64Range(1, 1<<40).Draw(t, "dt")))
		}
		return &crosschaintypes.MsgUpdateParams{ChainName: chain, Params: p}, chain
	case "/fx.gravity.crosschain.v1.MsgUpdateChainOracles":
		n := rapid.IntRange(1, 6).Draw(t, "n")
		var os []string
		for i := 0; i < n; i++ {
			os = append(os, sim.NewOracleKeys(chain, rapid.IntRange(0, 9).Draw(t, "oi")).Oracle.Acc().String())
		}
		return &crosschaintypes.MsgUpdateChainOracles{ChainName: chain, Oracles: dedup(os)}, chain
	case "/fx.erc20.v1.MsgUpdateParams":
		return &erc20types.MsgUpdateParams{Params: erc20types.Params{
			EnableErc20: rapid.Bool().Draw(t, "e"), EnableEVMHook: rapid.Bool().Draw(t, "h"),
			IbcTimeout: time.Duration(rapid.Int64Range(1, 1<<40).Draw(t, "to")),
		}}, ""
	case "/fx.erc20.v1.MsgRegisterCoin":
		sym := rapid.StringMatching("[A-Z]{3,6}").Draw(t, "sym")
		md := fxtypes.GetCrossChainMetadataManyToOne("New "+sym, sym, 18)
		if rapid.Bool().Draw(t, "alias") {
			md = fxtypes.GetCrossChainMetadataManyToOne("New "+sym, sym, 18, crosschaintypes.NewBridgeDenom("eth", sim.ExtAddrN("eth", "newtoken", 1)))
		}
		return &erc20types.MsgRegisterCoin{Metadata: md}, ""
	case "/fx.erc20.v1.MsgRegisterERC20":
		m := &erc20types.MsgRegisterERC20{Erc20Address: baseUnregistered.String()}
		if rapid.Bool().Draw(t, "alias") {
			m.Aliases = []string{crosschaintypes.NewBridgeDenom("bsc", sim.ExtAddrN("bsc", "newtoken", 2))}
		}
		return m, ""
	case "/fx.erc20.v1.MsgToggleTokenConversion":
		tk := f.Tokens[rapid.IntRange(0, len(f.Tokens)-1).Draw(t, "tk")]
		tok := tk.Base
		if rapid.Bool().Draw(t, "byaddr") {
			tok = tk.ERC20.String()
		}
		return &erc20types.MsgToggleTokenConversion{Token: tok}, ""
	case "/fx.erc20.v1.MsgUpdateDenomAlias":
		tk := f.Tokens[rapid.IntRange(1, len(f.Tokens)-1).Draw(t, "tk")]
		alias := crosschaintypes.NewBridgeDenom("polygon", sim.ExtAddrN("polygon", "alias", rapid.IntRange(0, 3).Draw(t, "ai")))
		if rapid.IntRange(0, 3).Draw(t, "existing") == 0 {
			alias = tk.Bridge[f.Chains[rapid.IntRange(0, len(f.Chains)-1).Draw(t, "ch")]]
		}
		return &erc20types.MsgUpdateDenomAlias{Denom: tk.Base, Alias: alias}, ""
	case "/fx.evm.v1.MsgCallContract":
		usdt := f.Token("USDT")
		to := f.Users[rapid.IntRange(0, len(f.Users)-1).Draw(t, "to")].Hex()
		data, _ := contract.GetFIP20().ABI.Pack("mint", to, sim.BigInt(rapid.Int64Range(1, 1<<40).Draw(t, "amt")))
		return &fxevmtypes.MsgCallContract{ContractAddress: usdt.ERC20.String(), Data: hex.EncodeToString(data)}, ""
	case "/fx.gov.v1.MsgUpdateSwitchParams":
		cands := []string{contract.StakingAddress, contract.CrossChainAddress, contract.CrossChainAddress + "/a9059cbb", "0x0000000000000000000000000000000000009999"}
		n := rapid.IntRange(0, 3).Draw(t, "n")
		var ps []string
		for i := 0; i < n; i++ {
			ps = append(ps, rapid.SampledFrom(cands).Draw(t, "p"))
		}
		var ms []string
		if rapid.Bool().Draw(t, "m") {
			ms = []string{"/cosmos.bank.v1beta1.MsgSend"}
		}
		return &fxgovtypes.MsgUpdateSwitchParams{Params: fxgovtypes.SwitchParams{DisablePrecompiles: dedup(ps), DisableMsgTypes: ms}}, ""
	case "/fx.gov.v1.MsgUpdateCustomParams":
		m := &fxgovtypes.MsgUpdateCustomParams{MsgUrl: rapid.SampledFrom([]string{"/cosmos.distribution.v1beta1.MsgCommunityPoolSpend", "/fx.erc20.v1.MsgRegisterCoin", "/cosmos.bank.v1beta1.MsgSend"}).Draw(t, "url")}
		if rapid.IntRange(0, 3).Draw(t, "empty") != 0 {
			d := time.Duration(rapid.Int64Range(1, 1<<50).Draw(t, "vp"))
			m.CustomParams = fxgovtypes.CustomParams{
				DepositRatio: sdkmath.LegacyNewDecWithPrec(rapid.Int64Range(0, 100).Draw(t, "dr"), 2).String(),
				VotingPeriod: &d,
				Quorum:       sdkmath.LegacyNewDecWithPrec(rapid.Int64Range(0, 100).Draw(t, "q"), 2).String(),
			}
		}
		return m, ""
	case "/cosmos.bank.v1beta1.MsgUpdateParams":
		return &banktypes.MsgUpdateParams{Params: banktypes.Params{DefaultSendEnabled: rapid.Bool().Draw(t, "se")}}, ""
	case "/cosmos.bank.v1beta1.MsgSetSendEnabled":
		return &banktypes.MsgSetSendEnabled{SendEnabled: []*banktypes.SendEnabled{{Denom: rapid.SampledFrom([]string{"usdt", "ext", "FX"}).Draw(t, "d"), Enabled: rapid.Bool().Draw(t, "en")}}}, ""
	case "/cosmos.distribution.v1beta1.MsgCommunityPoolSpend":
		return &distrtypes.MsgCommunityPoolSpend{Recipient: f.Users[rapid.IntRange(0, 3).Draw(t, "r")].Acc().String(), Amount: sdk.NewCoins(sdk.NewCoin(fxtypes.DefaultDenom, sdkmath.NewInt(rapid.Int64Range(1, 1<<40).Draw(t, "amt"))))}, ""
	case "/cosmos.distribution.v1beta1.MsgUpdateParams":
		p, _ := f.App.DistrKeeper.Params.Get(ctx)
		p.CommunityTax = sdkmath.LegacyNewDecWithPrec(rapid.Int64Range(0, 100).Draw(t, "tax"), 2)
		return &distrtypes.MsgUpdateParams{Params: p}, ""
	case "/cosmos.staking.v1beta1.MsgUpdateParams":
		p, _ := f.App.StakingKeeper.GetParams(ctx)
		p.MaxEntries = uint32(rapid.IntRange(1, 100).Draw(t, "me"))
		return &stakingtypes.MsgUpdateParams{Params: p}, ""
	case "/cosmos.slashing.v1beta1.MsgUpdateParams":
		p, _ := f.App.SlashingKeeper.GetParams(ctx)
		p.SignedBlocksWindow = rapid.Int64Range(1, 1<<30).Draw(t, "w")
		return &slashingtypes.MsgUpdateParams{Params: p}, ""
	case "/cosmos.mint.v1beta1.MsgUpdateParams":
		p, _ := f.App.MintKeeper.Params.Get(ctx)
		p.BlocksPerYear = rapid.Uint64Range(1, 1<<40).Draw(t, "bpy")
		return &minttypes.MsgUpdateParams{Params: p}, ""
	case "/cosmos.auth.v1beta1.MsgUpdateParams":
		p := f.App.AccountKeeper.GetParams(ctx)
		p.MaxMemoCharacters = rapid.Uint64Range(1, 1<<20).Draw(t, "mm")
		return &authtypes.MsgUpdateParams{Params: p}, ""
	case "/ethermint.evm.v1.MsgUpdateParams":
		p := f.App.EvmKeeper.GetParams(ctx)
		p.AllowUnprotectedTxs = rapid.Bool().Draw(t, "aut")
		return &evmtypes.MsgUpdateParams{Params: p}, ""
	case "/ethermint.feemarket.v1.MsgUpdateParams":
		p := f.App.FeeMarketKeeper.GetParams(ctx)
		p.NoBaseFee = rapid.Bool().Draw(t, "nbf")
		return &feemarkettypes.MsgUpdateParams{Params: p}, ""
	case "/cosmos.upgrade.v1beta1.MsgSoftwareUpgrade":
		return &upgradetypes.MsgSoftwareUpgrade{Plan: upgradetypes.Plan{Name: rapid.StringMatching("v[0-9]{1,2}").Draw(t, "name"), Height: rapid.Int64Range(100, 1<<40).Draw(t, "h")}}, ""
	case "/cosmos.upgrade.v1beta1.MsgCancelUpgrade":
		return &upgradetypes.MsgCancelUpgrade{}, ""
	}
	return nil, ""
}

func dedup(xs []string) []string {
	seen := map[string]bool{}
	var out []string
	for _, x := range xs {
		if !seen[x] {
			seen[x] = true
			out = append(out, x)
		}
	}
	return out
}

var govBech32 string // set in TestMain after the bech32 prefixes are configured

func flipChar(s string, i int) string {
	b := []byte(s)
	i = i % len(b)
	if b[i] == 'q' {
		b[i] = 'p'
	} else {
		b[i] = 'q'
	}
	return string(b)
}

func c16DrawAuthority(t *rapid.T, f *sim.Fixture) (string, string) {
	kinds := []string{"user", "module", "empty", "flipped", "other-hrp", "hex", "gov-upper", "garbage", "val-operator", "gov-padded",
		"gov-suffix-32", "gov-prefix-32", "gov-truncated", "gov-leading-space", "gov-suffix-21"}
	k := rapid.SampledFrom(kinds).Draw(t, "authkind")
	switch k {
	case "user":
		return f.Users[rapid.IntRange(0, len(f.Users)-1).Draw(t, "u")].Acc().String(), k
	case "module":
		mods := []string{"distribution", "erc20", "evm", "eth", "bsc", "tron", "bonded_tokens_pool", "fee_collector", "mint", "transfer", "crosschain", "staking"}
		return authtypes.NewModuleAddress(rapid.SampledFrom(mods).Draw(t, "mod")).String(), k
	case "empty":
		return "", k
	case "flipped":
		return flipChar(govBech32, rapid.IntRange(3, len(govBech32)-1).Draw(t, "pos")), k
	case "other-hrp":
		s, _ := sdk.Bech32ifyAddressBytes("cosmos", sim.GovAddr)
		return s, k
	case "hex":
		return "0x" + hex.EncodeToString(sim.GovAddr), k
	case "gov-upper":
		return strings.ToUpper(govBech32), k
	case "garbage":
		return rapid.StringN(0, 40, -1).Draw(t, "g"), k
	case "val-operator":
		return sdk.ValAddress(sim.GovAddr).String(), k
	case "gov-suffix-32", "gov-suffix-21":
		// another (longer, valid) account whose trailing 20 bytes spell the governance address
		n := 12
		if k == "gov-suffix-21" {
			n = 1
		}
		pad := rapid.SliceOfN(rapid.Byte(), n, n).Draw(t, "pad")
		if pad[0] == 0 {
			pad[0] = 1
		}
		return sdk.AccAddress(append(pad, sim.GovAddr...)).String(), k
	case "gov-prefix-32":
		pad := rapid.SliceOfN(rapid.Byte(), 12, 12).Draw(t, "pad")
		return sdk.AccAddress(append(append([]byte{}, sim.GovAddr...), pad...)).String(), k
	case "gov-truncated":
		return sdk.AccAddress(sim.GovAddr[:len(sim.GovAddr)-1]).String(), k
	case "gov-leading-space":
		return " " + govBech32, k
	default:
		return govBech32 + " ", k
	}
}

func genC16(t *rapid.T) c16Case {
	c16Enumerate()
	f := base()
	var url string
	switch w := rapid.IntRange(0, 9).Draw(t, "typeclass"); {
	case w < 2:
		url = "/fx.gov.v1.MsgUpdateStore"
	case w < 6:
		var own []string
		for _, u := range c16Types {
			if strings.HasPrefix(u, "/fx.") {
				own = append(own, u)
			}
		}
		url = rapid.SampledFrom(own).Draw(t, "type")
	default:
		url = rapid.SampledFrom(c16Types).Draw(t, "type")
	}
	c := c16Case{TypeURL: url}
	var msg proto.Message
	if url == "/fx.gov.v1.MsgUpdateStore" {
		msg = c16GenStore(t, f)
		c.Mode = "store"
	} else if rapid.IntRange(0, 9).Draw(t, "mode") < 7 {
		msg, c.Chain = c16Template(t, f, url)
		c.Mode = "template"
	}
	if msg == nil {
		proto0, _ := f.App.InterfaceRegistry().Resolve(url)
		msg = fill.Msg(t, fillEnv(f), proto0, "fill")
		c.Mode = "fill"
	}
	bz, err := safeMarshal(msg)
	if err != nil {
		// un-marshalable fill: fall back to an empty message of that type
		proto0, _ := f.App.InterfaceRegistry().Resolve(url)
		bz, _ = safeMarshal(proto0)
	}
	c.Payload = hex.EncodeToString(bz)
	c.Authority, c.AuthKind = c16DrawAuthority(t, f)
	return c
}

func safeMarshal(m proto.Message) (bz []byte, err error) {
	defer func() {
		if r := recover(); r != nil {
			err = fmt.Errorf("marshal panic: %v", r)
		}
	}()
	return proto.Marshal(m)
}

// c16GenStore draws update-store entries against the real store contents of the base state.
func c16GenStore(t *rapid.T, f *sim.Fixture) proto.Message {
	d := c16BaseDump()
	spaces := make([]string, 0, len(d))
	for s, m := range d {
		if len(m) > 0 {
			spaces = append(spaces, s)
		}
	}
	sort.Strings(spaces)
	n := rapid.IntRange(1, 4).Draw(t, "entries")
	m := &fxgovtypes.MsgUpdateStore{}
	for i := 0; i < n; i++ {
		if i > 0 && rapid.IntRange(0, 2).Draw(t, "samekey") == 0 {
			// a second entry for the key the previous entry wrote: its stated old value is either the
			// original store value (stale) or the value just written (current)
			prev := m.UpdateStores[i-1]
			us := fxgovtypes.UpdateStore{Space: prev.Space, Key: prev.Key, OldValue: prev.OldValue}
			if rapid.Bool().Draw(t, "chained") {
				us.OldValue = prev.Value
			}
			us.Value = hex.EncodeToString(rapid.SliceOfN(rapid.Byte(), 1, 8).Draw(t, "val2"))
			m.UpdateStores = append(m.UpdateStores, us)
			continue
		}
		space := rapid.SampledFrom(spaces).Draw(t, "space")
		keys := make([]string, 0, len(d[space]))
		for k := range d[space] {
			keys = append(keys, k)
		}
		sort.Strings(keys)
		key := rapid.SampledFrom(keys).Draw(t, "key")
		us := fxgovtypes.UpdateStore{Space: space, Key: hex.EncodeToString([]byte(key))}
		switch rapid.IntRange(0, 4).Draw(t, "oldkind") {
		case 0, 1: // right old value
			us.OldValue = hex.EncodeToString([]byte(d[space][key]))
		case 2: // wrong old value
			us.OldValue = hex.EncodeToString(append([]byte(d[space][key]), 1))
		case 3: // missing key, empty old
			us.Key = hex.EncodeToString(append([]byte(key), 0xfe, 0xfd))
		case 4: // missing key, non-empty old
			us.Key = hex.EncodeToString(append([]byte(key), 0xfe, 0xfd))
			us.OldValue = "01"
		}
		if rapid.IntRange(0, 9).Draw(t, "badspace") == 0 {
			us.Space = "nosuchspace"
		}
		us.Value = hex.EncodeToString(rapid.SliceOfN(rapid.Byte(), 1, 8).Draw(t, "val"))
		m.UpdateStores = append(m.UpdateStores, us)
	}
	return m
}

var (
	c16DumpOnce sync.Once
	c16Dump     sim.Dump
)

func c16BaseDump() sim.Dump {
	c16DumpOnce.Do(func() { c16Dump = base().DumpStores(base().Ctx) })
	return c16Dump
}

func isGovAuthority(a string) bool { return strings.EqualFold(a, govBech32) }

func runC16(c c16Case, rec *ev.Recorder) *Failure {
	c16Enumerate()
	f := base()
	proto0, err := f.App.InterfaceRegistry().Resolve(c.TypeURL)
	if err != nil {
		return failf("harness", "resolve %s: %v", c.TypeURL, err)
	}
	build := func(authority string) (sdk.Msg, error) {
		m := reflect.New(reflect.TypeOf(proto0).Elem()).Interface().(proto.Message)
		bz, err := hex.DecodeString(c.Payload)
		if err != nil {
			return nil, err
		}
		if err := f.App.AppCodec().Unmarshal(bz, m); err != nil {
			return nil, err
		}
		fld, ok := c16AuthorityField(m)
		if !ok {
			return nil, fmt.Errorf("no authority field")
		}
		fld.SetString(authority)
		return m.(sdk.Msg), nil
	}
	pre := c16BaseDump()

	// 1. non-governance authority: must be rejected and leave every store unchanged.
	ctxA, _ := f.Ctx.CacheContext()
	msgA, err := build(c.Authority)
	if err != nil {
		rec.Case(ev.Sig("undecodable", c.TypeURL), false, "undecodable")
		return nil
	}
	resA := f.RunMsg(ctxA, msgA)
	shouldReject := !isGovAuthority(c.Authority)
	if shouldReject {
		if resA.OK() {
			return failf("C16/accepted/"+c.TypeURL, "%s with authority %q (%s) was ACCEPTED", c.TypeURL, c.Authority, c.AuthKind)
		}
		if d := sim.Diff(pre, f.DumpStores(ctxA)); len(d) > 0 {
			return failf("C16/state-changed/"+c.TypeURL, "%s with authority %q rejected (%v) but state changed:\n%s", c.TypeURL, c.Authority, resA.Err, sim.DiffString(d, 10))
		}
	}

	// 2. the same payload under the governance authority (non-vacuity + UpdateStore model).
	ctxB, _ := f.Ctx.CacheContext()
	msgB, _ := build(govBech32)
	resB := f.RunMsg(ctxB, msgB)
	post := f.DumpStores(ctxB)
	govOK := resB.OK()
	if !govOK {
		if d := sim.Diff(pre, post); len(d) > 0 {
			return failf("C16/failed-but-changed/"+c.TypeURL, "%s failed under gov (%v) but state changed:\n%s", c.TypeURL, resB.Err, sim.DiffString(d, 10))
		}
	}
	if us, ok := msgB.(*fxgovtypes.MsgUpdateStore); ok {
		if f := c16CheckStore(us, pre, post, resB); f != nil {
			return f
		}
	}
	label := "type:" + c.TypeURL
	if c.Chain != "" {
		label += "@" + c.Chain
	}
	nontrivial := govOK && shouldReject
	if govOK {
		rec.Label("applied-under-gov:"+c.TypeURL, 1)
	}
	rec.Case(ev.Sig(c.TypeURL, c.Chain, c.AuthKind, c.Mode), nontrivial, label, "auth:"+c.AuthKind, "mode:"+c.Mode, fmt.Sprintf("gov-ok:%v", govOK))
	if nontrivial && rec.WantSample() {
		rec.Sample(c)
	}
	return nil
}

// c16CheckStore: applied <=> every entry's current value (as modified by earlier entries) equals
// the stated old value and the space exists; applied => post = pre + the writes; else post = pre.
func c16CheckStore(m *fxgovtypes.MsgUpdateStore, pre, post sim.Dump, res sim.Result) *Failure {
	if err := m.ValidateBasic(); err != nil {
		return nil // rejected statelessly, covered by the unchanged-state check
	}
	model := map[string]map[string]string{}
	get := func(space, key string) (string, bool) {
		if mm, ok := model[space]; ok {
			if v, ok := mm[key]; ok {
				return v, true
			}
		}
		v, ok := pre[space][key]
		return v, ok
	}
	apply := true
	for _, us := range m.UpdateStores {
		if _, ok := pre[us.Space]; !ok {
			apply = false
			break
		}
		cur, _ := get(us.Space, string(us.KeyToBytes()))
		if cur != string(us.OldValueToBytes()) {
			apply = false
			break
		}
		if model[us.Space] == nil {
			model[us.Space] = map[string]string{}
		}
		model[us.Space][string(us.KeyToBytes())] = string(us.ValueToBytes())
	}
	if apply != res.OK() {
		return failf("C16/store-cas", "UpdateStore %v: model says applied=%v, handler ok=%v (%v)", m.UpdateStores, apply, res.OK(), res.Err)
	}
	want := sim.Dump{}
	for s, mm := range pre {
		cp := make(map[string]string, len(mm))
		for k, v := range mm {
			cp[k] = v
		}
		want[s] = cp
	}
	if apply {
		for s, mm := range model {
			for k, v := range mm {
				want[s][k] = v
			}
		}
	}
	if d := sim.Diff(want, post); len(d) > 0 {
		return failf("C16/store-effect", "UpdateStore %v applied=%v: state differs from model:\n%s", m.UpdateStores, apply, sim.DiffString(d, 10))
	}
	return nil
}

func init() { registerReplay("C16", runC16) }

func TestC16(t *testing.T) {
	c16Enumerate()
	rec := ev.Get("C16")
	rec.SetExtra("enumerated_types", c16Types)
	rec.SetExtra("authority_types_without_handler", c16NoHandler)
	drive(t, "C16", genC16, runC16)
}
