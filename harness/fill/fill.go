// Package fill populates gogoproto message structs by reflection from rapid draws: a
// structure-aware generator for "any registered message type", biased to values that get past
// decoding and to extreme / absent values that stress validation.
package fill

import (
	"math"
	"reflect"
	"strings"
	"time"

	sdkmath "cosmossdk.io/math"
	codectypes "github.com/cosmos/cosmos-sdk/codec/types"
	sdk "github.com/cosmos/cosmos-sdk/types"
	"github.com/cosmos/gogoproto/proto"
	"pgregory.net/rapid"
)

type Env struct {
	AccAddrs   []string // bech32 account addresses that exist
	ValAddrs   []string
	HexAddrs   []string
	Denoms     []string
	ChainNames []string
	AnyMsgs    []proto.Message // candidates for Any fields
	Hostile    bool            // draw extreme / absent values more often
	MaxDepth   int
}

var (
	intType   = reflect.TypeOf(sdkmath.Int{})
	decType   = reflect.TypeOf(sdkmath.LegacyDec{})
	anyType   = reflect.TypeOf(codectypes.Any{})
	timeType  = reflect.TypeOf(time.Time{})
	durType   = reflect.TypeOf(time.Duration(0))
	coinType  = reflect.TypeOf(sdk.Coin{})
	bytesType = reflect.TypeOf([]byte(nil))
)

var hugeInts = []string{
	"0", "1", "-1", "9223372036854775807", "9223372036854775808", "18446744073709551615", "18446744073709551616",
	"115792089237316195423570985008687907853269984665640564039457584007913129639935",
	"115792089237316195423570985008687907853269984665640564039457584007913129639936",
	"1000000000000000000", "1000000000000000000000000",
}

func DrawInt(t *rapid.T, e *Env, label string) sdkmath.Int {
	k := rapid.IntRange(0, 9).Draw(t, label+".k")
	switch {
	case k == 0 && e.Hostile:
		return sdkmath.Int{} // nil: what an absent wire field decodes to
	case k <= 2:
		s := rapid.SampledFrom(hugeInts).Draw(t, label+".huge")
		v, _ := sdkmath.NewIntFromString(s)
		return v
	case k <= 4:
		return sdkmath.NewInt(rapid.Int64Range(0, 1000).Draw(t, label+".small"))
	default:
		return sdkmath.NewInt(rapid.Int64Range(1, 1_000_000).Draw(t, label+".mid")).MulRaw(1e12)
	}
}

func drawDec(t *rapid.T, e *Env, label string) sdkmath.LegacyDec {
	k := rapid.IntRange(0, 7).Draw(t, label+".k")
	switch {
	case k == 0 && e.Hostile:
		return sdkmath.LegacyDec{}
	case k == 1:
		return sdkmath.LegacyNewDec(rapid.Int64Range(-2, 1000).Draw(t, label+".big"))
	default:
		return sdkmath.LegacyNewDecWithPrec(rapid.Int64Range(0, 100).Draw(t, label+".p"), 2)
	}
}

func pick(t *rapid.T, xs []string, label string) (string, bool) {
	if len(xs) == 0 {
		return "", false
	}
	return rapid.SampledFrom(xs).Draw(t, label), true
}

var alphabet = []rune("abcXYZ019/ []:-_.0x")

func drawString(t *rapid.T, e *Env, name, label string) string {
	n := strings.ToLower(name)
	k := rapid.IntRange(0, 9).Draw(t, label+".k")
	if e.Hostile && k == 0 {
		return ""
	}
	if e.Hostile && k == 1 {
		return rapid.StringOfN(rapid.RuneFrom(alphabet), 0, 300, -1).Draw(t, label+".long")
	}
	switch {
	case strings.Contains(n, "chainname"):
		if s, ok := pick(t, e.ChainNames, label+".chain"); ok && k < 9 {
			return s
		}
	case strings.Contains(n, "validator") || strings.Contains(n, "valaddr"):
		if s, ok := pick(t, e.ValAddrs, label+".val"); ok && k < 9 {
			return s
		}
	case strings.Contains(n, "denom") || n == "token":
		if s, ok := pick(t, e.Denoms, label+".denom"); ok && k < 9 {
			return s
		}
	case strings.Contains(n, "contract") || strings.Contains(n, "external") || strings.Contains(n, "erc20") || strings.Contains(n, "hex"):
		if s, ok := pick(t, e.HexAddrs, label+".hex"); ok && k < 9 {
			return s
		}
	case strings.Contains(n, "address") || strings.Contains(n, "sender") || strings.Contains(n, "receiver") || strings.Contains(n, "signer") ||
		strings.Contains(n, "from") || n == "to" || strings.Contains(n, "depositor") || strings.Contains(n, "voter") || strings.Contains(n, "proposer") ||
		strings.Contains(n, "authority") || strings.Contains(n, "granter") || strings.Contains(n, "grantee") || strings.Contains(n, "delegator") ||
		strings.Contains(n, "oracle") || strings.Contains(n, "bridger") || strings.Contains(n, "recipient") || strings.Contains(n, "admin"):
		if k < 7 {
			if s, ok := pick(t, e.AccAddrs, label+".acc"); ok {
				return s
			}
		} else if k < 9 {
			if s, ok := pick(t, e.HexAddrs, label+".hexa"); ok {
				return s
			}
		}
	case strings.Contains(n, "data") || strings.Contains(n, "memo") || strings.Contains(n, "hash") || strings.Contains(n, "signature"):
		if k < 8 {
			b := rapid.SliceOfN(rapid.Byte(), 0, 40).Draw(t, label+".hexdata")
			const hexd = "0123456789abcdef"
			out := make([]byte, 0, len(b)*2)
			for _, x := range b {
				out = append(out, hexd[x>>4], hexd[x&15])
			}
			return string(out)
		}
	}
	return rapid.StringOfN(rapid.RuneFrom(alphabet), 0, 12, -1).Draw(t, label+".s")
}

func drawUint(t *rapid.T, label string, bits int) uint64 {
	k := rapid.IntRange(0, 9).Draw(t, label+".k")
	var max uint64 = math.MaxUint64
	if bits == 32 {
		max = math.MaxUint32
	}
	switch k {
	case 0:
		return 0
	case 1:
		return max
	case 2:
		if bits == 64 {
			return 1 << 63
		}
		return 1 << 31
	case 3:
		if bits == 64 {
			return 1<<63 - 1
		}
		return 1<<31 - 1
	case 4, 5:
		return rapid.Uint64Range(0, max).Draw(t, label+".any")
	default:
		return rapid.Uint64Range(0, 200000).Draw(t, label+".small")
	}
}

func drawInt64(t *rapid.T, label string, bits int) int64 {
	k := rapid.IntRange(0, 9).Draw(t, label+".k")
	min, max := int64(math.MinInt64), int64(math.MaxInt64)
	if bits == 32 {
		min, max = math.MinInt32, math.MaxInt32
	}
	switch k {
	case 0:
		return 0
	case 1:
		return max
	case 2:
		return min
	case 3:
		return -1
	case 4:
		return rapid.Int64Range(min, max).Draw(t, label+".any")
	default:
		return rapid.Int64Range(0, 200000).Draw(t, label+".small")
	}
}

// Value fills v (settable) recursively.
func Value(t *rapid.T, e *Env, v reflect.Value, name, label string, depth int) {
	if !v.CanSet() {
		return
	}
	maxDepth := e.MaxDepth
	if maxDepth == 0 {
		maxDepth = 5
	}
	typ := v.Type()
	switch typ {
	case intType:
		v.Set(reflect.ValueOf(DrawInt(t, e, label)))
		return
	case decType:
		v.Set(reflect.ValueOf(drawDec(t, e, label)))
		return
	case timeType:
		sec := rapid.Int64Range(-1, 4102444800).Draw(t, label+".time")
		v.Set(reflect.ValueOf(time.Unix(sec, 0).UTC()))
		return
	case durType:
		v.SetInt(drawInt64(t, label, 64))
		return
	case bytesType:
		v.SetBytes(rapid.SliceOfN(rapid.Byte(), 0, 40).Draw(t, label+".bytes"))
		return
	case coinType:
		d, _ := pick(t, e.Denoms, label+".cdenom")
		if d == "" || rapid.IntRange(0, 9).Draw(t, label+".cd") == 0 {
			d = drawString(t, e, "denom", label+".cds")
		}
		v.Set(reflect.ValueOf(sdk.Coin{Denom: d, Amount: DrawInt(t, e, label+".camt")}))
		return
	case anyType:
		if len(e.AnyMsgs) > 0 && rapid.IntRange(0, 9).Draw(t, label+".anyk") < 8 {
			m := rapid.SampledFrom(e.AnyMsgs).Draw(t, label+".anym")
			cp := reflect.New(reflect.TypeOf(m).Elem())
			if depth < maxDepth {
				Value(t, e, cp.Elem(), "", label+".anyv", depth+1)
			}
			if a, err := codectypes.NewAnyWithValue(cp.Interface().(proto.Message)); err == nil {
				v.Set(reflect.ValueOf(*a))
				return
			}
		}
		v.Set(reflect.ValueOf(codectypes.Any{TypeUrl: drawString(t, e, "typeurl", label+".tu"), Value: rapid.SliceOfN(rapid.Byte(), 0, 20).Draw(t, label+".av")}))
		return
	}
	switch v.Kind() {
	case reflect.String:
		v.SetString(drawString(t, e, name, label))
	case reflect.Bool:
		v.SetBool(rapid.Bool().Draw(t, label))
	case reflect.Int32:
		if typ.PkgPath() != "" { // enum
			v.SetInt(int64(rapid.IntRange(-1, 6).Draw(t, label+".enum")))
		} else {
			v.SetInt(drawInt64(t, label, 32))
		}
	case reflect.Int64, reflect.Int:
		v.SetInt(drawInt64(t, label, 64))
	case reflect.Uint32:
		v.SetUint(drawUint(t, label, 32))
	case reflect.Uint64, reflect.Uint:
		v.SetUint(drawUint(t, label, 64))
	case reflect.Float64, reflect.Float32:
		v.SetFloat(rapid.Float64().Draw(t, label))
	case reflect.Ptr:
		if depth >= maxDepth || rapid.IntRange(0, 9).Draw(t, label+".nil") == 0 {
			return // nil
		}
		nv := reflect.New(typ.Elem())
		Value(t, e, nv.Elem(), name, label, depth+1)
		v.Set(nv)
	case reflect.Struct:
		if depth >= maxDepth {
			return
		}
		for i := 0; i < v.NumField(); i++ {
			f := typ.Field(i)
			if f.PkgPath != "" || strings.HasPrefix(f.Name, "XXX_") {
				continue
			}
			Value(t, e, v.Field(i), f.Name, label+"."+f.Name, depth+1)
		}
	case reflect.Slice:
		if depth >= maxDepth {
			return
		}
		n := rapid.IntRange(0, 3).Draw(t, label+".len")
		s := reflect.MakeSlice(typ, n, n)
		for i := 0; i < n; i++ {
			Value(t, e, s.Index(i), name, label+".i", depth+1)
		}
		v.Set(s)
	case reflect.Map:
		// rare in messages; leave empty
	case reflect.Interface:
		// oneof: leave nil
	}
}

// Msg fills a fresh instance of the same type as proto message m.
func Msg(t *rapid.T, e *Env, m proto.Message, label string) proto.Message {
	nv := reflect.New(reflect.TypeOf(m).Elem())
	Value(t, e, nv.Elem(), "", label, 0)
	return nv.Interface().(proto.Message)
}
