package sim

import (
	"context"
	"fmt"
	"math/big"

	"github.com/cosmos/cosmos-sdk/client"
	sdk "github.com/cosmos/cosmos-sdk/types"
	"github.com/cosmos/cosmos-sdk/types/tx/signing"
	authsigning "github.com/cosmos/cosmos-sdk/x/auth/signing"
	"github.com/ethereum/go-ethereum/common"
	ethtypes "github.com/ethereum/go-ethereum/core/types"
	evmtypes "github.com/evmos/ethermint/x/evm/types"

	fxtypes "github.com/functionx/fx-core/v8/types"
)

// TxSpec describes a Cosmos transaction to be signed.
type TxSpec struct {
	Msgs    []sdk.Msg
	Signers []Key // in the order the signing context requires them
	Gas     uint64
	Fee     sdk.Coins
	Memo    string
	// SeqDelta lets a caller sign several txs of one account for one block.
	SeqDelta map[string]uint64
}

func (c *Chain) TxConfig() client.TxConfig { return c.App.GetTxConfig() }

// SignTx builds and signs (SIGN_MODE_DIRECT) a transaction against the account state in ctx.
func (c *Chain) SignTx(ctx sdk.Context, s TxSpec) ([]byte, error) {
	txc := c.TxConfig()
	b := txc.NewTxBuilder()
	if err := b.SetMsgs(s.Msgs...); err != nil {
		return nil, err
	}
	if s.Gas == 0 {
		s.Gas = 2_000_000
	}
	b.SetGasLimit(s.Gas)
	b.SetFeeAmount(s.Fee)
	b.SetMemo(s.Memo)
	type accInfo struct{ num, seq uint64 }
	infos := make([]accInfo, len(s.Signers))
	sigs := make([]signing.SignatureV2, len(s.Signers))
	for i, k := range s.Signers {
		acc := c.App.AccountKeeper.GetAccount(ctx, k.Acc())
		if acc != nil {
			infos[i] = accInfo{acc.GetAccountNumber(), acc.GetSequence()}
		}
		if s.SeqDelta != nil {
			infos[i].seq += s.SeqDelta[k.Acc().String()]
		}
		sigs[i] = signing.SignatureV2{
			PubKey:   k.Pub(),
			Data:     &signing.SingleSignatureData{SignMode: signing.SignMode_SIGN_MODE_DIRECT},
			Sequence: infos[i].seq,
		}
	}
	if err := b.SetSignatures(sigs...); err != nil {
		return nil, err
	}
	for i, k := range s.Signers {
		sd := authsigning.SignerData{
			Address:       k.Acc().String(),
			ChainID:       ChainID,
			AccountNumber: infos[i].num,
			Sequence:      infos[i].seq,
			PubKey:        k.Pub(),
		}
		bz, err := authsigning.GetSignBytesAdapter(context.Background(), txc.SignModeHandler(), signing.SignMode_SIGN_MODE_DIRECT, sd, b.GetTx())
		if err != nil {
			return nil, err
		}
		sig, err := k.Priv.Sign(bz)
		if err != nil {
			return nil, err
		}
		sigs[i].Data = &signing.SingleSignatureData{SignMode: signing.SignMode_SIGN_MODE_DIRECT, Signature: sig}
	}
	if err := b.SetSignatures(sigs...); err != nil {
		return nil, err
	}
	return txc.TxEncoder()(b.GetTx())
}

// DefaultFee is enough for gas at the genesis min gas price (4e12 per gas in this app's default).
func DefaultFee(gas uint64) sdk.Coins {
	return sdk.NewCoins(sdk.NewCoin(fxtypes.DefaultDenom, IntFromBig(new(big.Int).Mul(big.NewInt(int64(gas)), big.NewInt(5_000_000_000_000)))))
}

// SignEthTx builds a signed MsgEthereumTx wrapped in a Cosmos tx (block level).
func (c *Chain) SignEthTx(ctx sdk.Context, from Key, to *common.Address, value *big.Int, data []byte, gasLimit uint64, nonceDelta uint64) ([]byte, error) {
	chainID := fxtypes.EIP155ChainID(ChainID)
	nonce := c.App.EvmKeeper.GetNonce(ctx, from.Hex()) + nonceDelta
	baseFee := c.App.FeeMarketKeeper.GetBaseFee(ctx)
	gasPrice := new(big.Int).Mul(baseFee, big.NewInt(2))
	tx := evmtypes.NewTx(chainID, nonce, to, value, gasLimit, gasPrice, nil, nil, data, nil)
	tx.From = from.Hex().Bytes()
	if err := tx.Sign(ethtypes.LatestSignerForChainID(chainID), ethSigner{from}); err != nil {
		return nil, err
	}
	b := c.TxConfig().NewTxBuilder()
	ctx2 := ctx
	_ = ctx2
	built, err := tx.BuildTx(b, c.App.EvmKeeper.GetParams(ctx).EvmDenom)
	if err != nil {
		return nil, fmt.Errorf("BuildTx: %w", err)
	}
	return c.TxConfig().TxEncoder()(built)
}
