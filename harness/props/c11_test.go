package props

import (
	"fmt"
	"math/big"
	"os"
	"testing"

	sdkmath "cosmossdk.io/math"
	abci "github.com/cometbft/cometbft/abci/types"
	sdk "github.com/cosmos/cosmos-sdk/types"
	authtypes "github.com/cosmos/cosmos-sdk/x/auth/types"
	distrkeeper "github.com/cosmos/cosmos-sdk/x/distribution/keeper"
	distrtypes "github.com/cosmos/cosmos-sdk/x/distribution/types"
	sdkstakingtypes "github.com/cosmos/cosmos-sdk/x/staking/types"
	"github.com/ethereum/go-ethereum/common"
	"pgregory.net/rapid"

	fxtypes "github.com/functionx/fx-core/v8/types"
	stakingtypes "github.com/functionx/fx-core/v8/x/staking/types"

	"verif/harness/ev"
	"verif/harness/evmprog"
	"verif/harness/sim"
)

// ---------------------------------------------------------------------------------------------
// C11 — transferring delegation shares conserves shares, stake and reward entitlements.
// Histories of precompile staking operations by 3 EOAs and a contract (Runner) over 3 validators,
// interleaved with reward allocation and validator slashing; after every step: delegations sum to
// the validator's shares and every registered crisis invariant holds; per transfer: exact share
// movement, validator untouched, pending rewards paid; at the end everyone can withdraw and fully
// undelegate.
// ---------------------------------------------------------------------------------------------

type c11Op struct {
	Kind string `json:"kind"` // delegate | undelegate | redelegate | withdraw | approve | transfer | transferfrom | reward | slash
	A    int    `json:"a"`    // actor 0..3 (3 = contract)
	B    int    `json:"b"`    // counter-party
	C    int    `json:"c"`    // third party (transferFrom: recipient)
	Val  int    `json:"val"`
	Val2 int    `json:"val2"`
	Amt  int64  `json:"amt"`  // whole part (FX)
	Wei  int64  `json:"wei"`  // odd remainder
	Frac int    `json:"frac"` // share fraction selector for transfers: 0 all, 1 half, 2 all-1, 3 = Amt
}

type c11Case struct {
	Ops []c11Op `json:"ops"`
}

func genC11(t *rapid.T) c11Case {
	max := 30
	if thorough() {
		max = 80
	}
	n := rapid.IntRange(3, max).Draw(t, "n")
	var c c11Case
	// every history starts with a few delegations so that later transfers have something to move
	for i := 0; i < 3; i++ {
		c.Ops = append(c.Ops, c11Op{Kind: "delegate", A: rapid.IntRange(0, 3).Draw(t, "da"), Val: rapid.IntRange(0, 1).Draw(t, "dval"), Amt: rapid.Int64Range(100, 3000).Draw(t, "damt"), Wei: rapid.SampledFrom([]int64{0, 7}).Draw(t, "dwei")})
	}
	for i := 0; i < n; i++ {
		k := rapid.SampledFrom([]string{"delegate", "delegate", "delegate", "undelegate", "redelegate", "withdraw", "approve", "transfer", "transfer", "transfer", "transferfrom", "transferfrom", "reward", "reward", "slash"}).Draw(t, "kind")
		op := c11Op{Kind: k, A: rapid.IntRange(0, 3).Draw(t, "a"), B: rapid.IntRange(0, 3).Draw(t, "b"), C: rapid.IntRange(0, 3).Draw(t, "c"),
			Val: rapid.SampledFrom([]int{0, 0, 1, 1, 2}).Draw(t, "val"), Val2: rapid.IntRange(0, 2).Draw(t, "val2"), Amt: rapid.Int64Range(1, 3000).Draw(t, "amt"),
			Wei: rapid.SampledFrom([]int64{0, 0, 1, 7, 999999999}).Draw(t, "wei"), Frac: rapid.IntRange(0, 3).Draw(t, "frac")}
		if k == "transfer" && rapid.IntRange(0, 4).Draw(t, "self") == 0 {
			op.B = op.A // sender == recipient explicitly in the domain
		}
		if k == "redelegate" && rapid.Bool().Draw(t, "redelThenMove") {
			// composite: B redelegates into Val2, then (while that redelegation is unmatured) approves A and A moves B's shares on
			// the destination validator with transferFrom; B also tries a plain transfer
			dst := op.Val2
			c.Ops = append(c.Ops, c11Op{Kind: "delegate", A: op.B, Val: op.Val, Amt: op.Amt + 10},
				c11Op{Kind: "redelegate", A: op.B, Val: op.Val, Val2: dst, Amt: op.Amt},
				c11Op{Kind: "approve", A: op.B, B: op.A, Val: dst, Frac: 0},
				c11Op{Kind: "transferfrom", A: op.A, B: op.B, C: op.C, Val: dst, Frac: op.Frac, Amt: op.Amt},
				c11Op{Kind: "transfer", A: op.B, B: op.C, Val: dst, Frac: op.Frac, Amt: op.Amt})
			continue
		}
		c.Ops = append(c.Ops, op)
	}
	return c
}

type c11Env struct {
	f      *sim.Fixture
	ctx    sdk.Context
	runner common.Address
}

func (e *c11Env) actorAddr(i int) common.Address {
	if i%4 == 3 {
		return e.runner
	}
	return e.f.Users[i%4].Hex()
}

// call performs a staking precompile call as actor i (EOA directly, contract through a script).
func (e *c11Env) call(ctx sdk.Context, i int, method string, args ...interface{}) (bool, string) {
	data, err := stakingtypes.GetABI().Pack(method, args...)
	if err != nil {
		panic(err)
	}
	if i%4 == 3 {
		s := evmprog.Script{Calls: []evmprog.Call{{Target: sim.StakingAddr, Data: data, Note: method}}}
		r, _ := e.f.RunScript(ctx, e.f.Users[0], e.runner, s, nil, 3_000_000)
		if r.Panic != "" {
			return false, "PANIC " + r.Panic
		}
		return r.Success(), ""
	}
	r := e.f.EthTx(ctx, e.f.Users[i%4], &sim.StakingAddr, nil, data, 3_000_000)
	if r.Panic != "" {
		return false, "PANIC " + r.Panic
	}
	if !r.Success() && r.Resp != nil && os.Getenv("VERIF_DEBUG") != "" {
		fmt.Printf("CALL %s failed: vmerr=%q ret=%q err=%v\n", method, r.Resp.VmError, string(r.Resp.Ret), r.Err)
	}
	return r.Success(), ""
}

func (e *c11Env) shares(ctx sdk.Context, who common.Address, val sdk.ValAddress) sdkmath.LegacyDec {
	d, err := e.f.App.StakingKeeper.GetDelegation(ctx, who.Bytes(), val)
	if err != nil {
		return sdkmath.LegacyZeroDec()
	}
	return d.Shares
}

func (e *c11Env) pending(ctx sdk.Context, who common.Address, val sdk.ValAddress) sdkmath.Int {
	q := distrkeeper.NewQuerier(e.f.App.DistrKeeper)
	cc, _ := ctx.CacheContext()
	res, err := q.DelegationRewards(cc, &distrtypes.QueryDelegationRewardsRequest{DelegatorAddress: sdk.AccAddress(who.Bytes()).String(), ValidatorAddress: val.String()})
	if err != nil {
		return sdkmath.ZeroInt()
	}
	return res.Rewards.AmountOf(fxtypes.DefaultDenom).TruncateInt()
}

func (e *c11Env) fxBalance(ctx sdk.Context, who common.Address) sdkmath.Int {
	return e.f.App.BankKeeper.GetBalance(ctx, who.Bytes(), fxtypes.DefaultDenom).Amount
}

// invariants: delegations sum to validator shares; all crisis invariants.
func (e *c11Env) invariants(ctx sdk.Context, desc string) *Failure {
	vals, _ := e.f.App.StakingKeeper.GetAllValidators(ctx)
	for _, v := range vals {
		valAddr, _ := sdk.ValAddressFromBech32(v.OperatorAddress)
		dels, _ := e.f.App.StakingKeeper.GetValidatorDelegations(ctx, valAddr)
		sum := sdkmath.LegacyZeroDec()
		for _, d := range dels {
			sum = sum.Add(d.Shares)
		}
		if !sum.Equal(v.DelegatorShares) {
			return failf("C11/delegations-vs-validator-shares", "%s: validator %s: delegations sum to %s shares but the validator records %s", desc, v.OperatorAddress, sum, v.DelegatorShares)
		}
	}
	for _, r := range e.f.App.CrisisKeeper.Routes() {
		var msg string
		var broken bool
		func() {
			defer func() {
				if rec := recover(); rec != nil {
					msg, broken = fmt.Sprintf("invariant panicked: %v", rec), true
				}
			}()
			cc, _ := ctx.CacheContext()
			msg, broken = r.Invar(cc)
		}()
		if broken {
			return failf("C11/crisis-invariant/"+r.ModuleName+"/"+r.Route, "%s: invariant %s/%s broken: %s", desc, r.ModuleName, r.Route, msg)
		}
	}
	return nil
}

func runC11(c c11Case, rec *ev.Recorder) *Failure {
	f := base()
	ctx, _ := f.Ctx.CacheContext()
	e := &c11Env{f: f, runner: sim.HexAddrN("c11-contract", 1)}
	f.InstallRunner(ctx, e.runner)
	f.Mint(ctx, e.runner.Bytes(), sim.FxCoin(100_000))
	vals := make([]sdk.ValAddress, len(f.ValKeys))
	for i, k := range f.ValKeys {
		vals[i] = k.Val()
	}
	labels := map[string]bool{}
	rewardsAccrued := false
	slashed := false
	height := ctx.BlockHeight()
	for si, op := range c.Ops {
		desc := fmt.Sprintf("step %d %+v", si, op)
		val := vals[op.Val%len(vals)]
		a := e.actorAddr(op.A)
		amt := new(big.Int).Add(new(big.Int).Mul(big.NewInt(op.Amt), big.NewInt(1e18)), big.NewInt(op.Wei))
		pickShares := func(owner common.Address) *big.Int {
			s := e.shares(ctx, owner, val).TruncateInt().BigInt()
			switch op.Frac {
			case 0:
				return s
			case 1:
				return new(big.Int).Div(s, big.NewInt(2))
			case 2:
				if s.Sign() > 0 {
					return new(big.Int).Sub(s, big.NewInt(1))
				}
				return s
			}
			return amt
		}
		var panicMsg string
		switch op.Kind {
		case "delegate":
			_, panicMsg = e.call(ctx, op.A, "delegateV2", val.String(), amt)
		case "undelegate":
			_, panicMsg = e.call(ctx, op.A, "undelegateV2", val.String(), amt)
		case "redelegate":
			v2 := vals[op.Val2%len(vals)]
			_, panicMsg = e.call(ctx, op.A, "redelegateV2", val.String(), v2.String(), amt)
			labels["redelegate"] = true
		case "withdraw":
			_, panicMsg = e.call(ctx, op.A, "withdraw", val.String())
		case "approve":
			_, panicMsg = e.call(ctx, op.A, "approveShares", val.String(), e.actorAddr(op.B), pickShares(a))
		case "transfer", "transferfrom":
			from, to := a, e.actorAddr(op.B)
			spender := op.A
			if op.Kind == "transferfrom" {
				from, to = e.actorAddr(op.B), e.actorAddr(op.C)
			}
			shares := pickShares(from)
			if shares.Sign() <= 0 {
				break
			}
			v0, _ := f.App.StakingKeeper.GetValidator(ctx, val)
			fromBefore, toBefore := e.shares(ctx, from, val), e.shares(ctx, to, val)
			pendFrom, pendTo := e.pending(ctx, from, val), e.pending(ctx, to, val)
			balFrom, balTo := e.fxBalance(ctx, from), e.fxBalance(ctx, to)
			allowBefore := f.App.StakingKeeper.GetAllowance(ctx, val, from.Bytes(), e.actorAddr(spender).Bytes())
			incoming, _ := f.App.StakingKeeper.HasReceivingRedelegation(ctx, from.Bytes(), val)
			if incoming {
				labels["transfer-attempt-during-incoming-redelegation:"+op.Kind] = true
			}
			var ok bool
			if op.Kind == "transfer" {
				ok, panicMsg = e.call(ctx, op.A, "transferShares", val.String(), to, shares)
			} else {
				ok, panicMsg = e.call(ctx, op.A, "transferFromShares", val.String(), from, to, shares)
			}
			if panicMsg != "" || !ok {
				break
			}
			if incoming && from != to {
				// the property's listed mechanism: shares that arrived by a redelegation which has not matured stay liable for the
				// source validator's faults, so they cannot be moved to another account meanwhile - by their owner or by a spender
				return failf("C11/transfer-during-incoming-redelegation", "%s: %s of %s shares succeeded although their owner %s has an unmatured redelegation into %s", desc, op.Kind, shares, from, val)
			}
			sd := sdkmath.LegacyNewDecFromBigInt(shares)
			v1, _ := f.App.StakingKeeper.GetValidator(ctx, val)
			if !v0.Tokens.Equal(v1.Tokens) || !v0.DelegatorShares.Equal(v1.DelegatorShares) {
				return failf("C11/validator-changed-by-transfer", "%s: validator tokens/shares changed by a share transfer: %s/%s -> %s/%s", desc, v0.Tokens, v0.DelegatorShares, v1.Tokens, v1.DelegatorShares)
			}
			fromAfter, toAfter := e.shares(ctx, from, val), e.shares(ctx, to, val)
			if from == to {
				labels["self-transfer"] = true
				if !fromAfter.Equal(fromBefore) {
					return failf("C11/self-transfer-changes-shares", "%s: transfer of %s shares to oneself changed the delegation from %s to %s", desc, shares, fromBefore, fromAfter)
				}
			} else {
				if !fromAfter.Equal(fromBefore.Sub(sd)) || !toAfter.Equal(toBefore.Add(sd)) {
					return failf("C11/share-movement", "%s: transfer of %s shares: sender %s -> %s, recipient %s -> %s", desc, shares, fromBefore, fromAfter, toBefore, toAfter)
				}
			}
			if op.Kind == "transferfrom" {
				allowAfter := f.App.StakingKeeper.GetAllowance(ctx, val, from.Bytes(), e.actorAddr(spender).Bytes())
				if allowBefore.Cmp(shares) < 0 || new(big.Int).Sub(allowBefore, shares).Cmp(allowAfter) != 0 {
					return failf("C11/allowance", "%s: allowance %s -> %s for a transfer of %s shares", desc, allowBefore, allowAfter, shares)
				}
				labels["transfer-from"] = true
			}
			// both parties are paid what was pending (withdraw address = own address here)
			gotFrom := e.fxBalance(ctx, from).Sub(balFrom)
			wantFrom := pendFrom
			if from == to {
				// one account: it is paid its pending rewards once
			} else if toBefore.IsPositive() {
				gotTo := e.fxBalance(ctx, to).Sub(balTo)
				if !gotTo.Equal(pendTo) {
					return failf("C11/recipient-rewards", "%s: recipient had %s pending rewards but was paid %s", desc, pendTo, gotTo)
				}
			}
			if !gotFrom.Equal(wantFrom) {
				return failf("C11/sender-rewards", "%s: sender had %s pending rewards but was paid %s", desc, pendFrom, gotFrom)
			}
			if p := e.pending(ctx, from, val); fromAfter.IsPositive() && !p.IsZero() {
				return failf("C11/sender-rewards-left", "%s: sender still has %s pending rewards right after the transfer", desc, p)
			}
			labels["transfer"] = true
			if rewardsAccrued {
				labels["transfer-after-rewards"] = true
			}
			if slashed {
				labels["transfer-after-slash"] = true
			}
		case "reward":
			// fees into the collector, then the real allocation with all validators voting
			fees := sim.FxCoin(op.Amt)
			if err := f.App.BankKeeper.MintCoins(ctx, "mint", sdk.NewCoins(fees)); err != nil {
				return failf("harness", "mint: %v", err)
			}
			if err := f.App.BankKeeper.SendCoinsFromModuleToModule(ctx, "mint", authtypes.FeeCollectorName, sdk.NewCoins(fees)); err != nil {
				return failf("harness", "fees: %v", err)
			}
			var votes []abci.VoteInfo
			total := int64(0)
			for i := range f.Cons {
				v, err := f.App.StakingKeeper.GetValidatorByConsAddr(ctx, sdk.ConsAddress(f.Cons[i].PubKey().Address()))
				if err != nil || !v.IsBonded() {
					continue
				}
				p := v.ConsensusPower(sdk.DefaultPowerReduction)
				total += p
				votes = append(votes, abci.VoteInfo{Validator: abci.Validator{Address: f.Cons[i].PubKey().Address(), Power: p}})
			}
			height++
			ctx = ctx.WithBlockHeight(height)
			type holding struct {
				actor int
				val   sdk.ValAddress
			}
			pendBefore := map[string]sdkmath.Int{}
			var holdings []holding
			for i := 0; i < 4; i++ {
				for _, vv := range vals {
					if e.shares(ctx, e.actorAddr(i), vv).IsPositive() {
						holdings = append(holdings, holding{i, vv})
						pendBefore[fmt.Sprintf("%d/%s", i, vv)] = e.pending(ctx, e.actorAddr(i), vv)
					}
				}
			}
			if err := f.App.DistrKeeper.AllocateTokens(ctx, total, votes); err != nil {
				return failf("harness", "allocate: %v", err)
			}
			rewardsAccrued = true
			// entitlements: what one allocation adds to a delegator's pending rewards is proportional to its shares
			// (all delegators of one validator compared pairwise; tolerance for the truncation of stakes and payouts)
			for x := 0; x < len(holdings); x++ {
				for y := x + 1; y < len(holdings); y++ {
					hx, hy := holdings[x], holdings[y]
					if !hx.val.Equals(hy.val) {
						continue
					}
					dx := e.pending(ctx, e.actorAddr(hx.actor), hx.val).Sub(pendBefore[fmt.Sprintf("%d/%s", hx.actor, hx.val)])
					dy := e.pending(ctx, e.actorAddr(hy.actor), hy.val).Sub(pendBefore[fmt.Sprintf("%d/%s", hy.actor, hy.val)])
					sx, sy := e.shares(ctx, e.actorAddr(hx.actor), hx.val), e.shares(ctx, e.actorAddr(hy.actor), hy.val)
					// dx/sx == dy/sy  <=>  dx*sy == dy*sx
					l, r := sdkmath.LegacyNewDecFromInt(dx).Mul(sy), sdkmath.LegacyNewDecFromInt(dy).Mul(sx)
					diff := l.Sub(r).Abs()
					tol := l.Abs().Add(r.Abs()).QuoInt64(1_000_000).Add(sx.Add(sy).MulInt64(4)) // 1e-6 relative + a few base units of rounding
					if diff.GT(tol) {
						return failf("C11/reward-entitlement-not-proportional", "%s: one allocation added %s to actor %d (%s shares) and %s to actor %d (%s shares) on %s: entitlements do not follow the shares", desc, dx, hx.actor, sx, dy, hy.actor, sy, hx.val)
					}
					labels["entitlement-compared"] = true
				}
			}
		case "slash":
			v, err := f.App.StakingKeeper.GetValidator(ctx, val)
			if err != nil || !v.IsBonded() {
				break
			}
			cons, _ := v.GetConsAddr()
			height++
			ctx = ctx.WithBlockHeight(height)
			frac := sdkmath.LegacyNewDecWithPrec(int64(1+op.Amt%30), 2)
			if _, err := f.App.StakingKeeper.Slash(ctx, cons, height-1, v.ConsensusPower(sdk.DefaultPowerReduction), frac); err != nil {
				return failf("harness", "slash: %v", err)
			}
			slashed = true
			labels["slash"] = true
		}
		if panicMsg != "" {
			return failf("C11/precompile-panic/"+op.Kind+"/"+panicSite(panicMsg), "%s: %s", desc, trimStack(panicMsg))
		}
		if fl := e.invariants(ctx, desc); fl != nil {
			return fl
		}
	}
	// at the end every delegator can withdraw and fully undelegate
	for i := 0; i < 4; i++ {
		who := e.actorAddr(i)
		for _, val := range vals {
			d, err := f.App.StakingKeeper.GetDelegation(ctx, who.Bytes(), val)
			if err != nil || !d.Shares.IsPositive() {
				continue
			}
			if ok, p := e.call(ctx, i, "withdraw", val.String()); !ok {
				return failf("C11/final-withdraw-fails", "actor %d cannot withdraw rewards from %s at the end of the history %s", i, val, p)
			}
			v, _ := f.App.StakingKeeper.GetValidator(ctx, val)
			tokens := v.TokensFromSharesTruncated(d.Shares).TruncateInt() // (the rounding variant can exceed the delegation by one base unit)
			if !tokens.IsPositive() {
				continue
			}
			if has, _ := f.App.StakingKeeper.HasMaxUnbondingDelegationEntries(ctx, who.Bytes(), val); has {
				continue // the SDK's own limit on concurrent unbonding entries
			}
			if ok, p := e.call(ctx, i, "undelegateV2", val.String(), tokens.BigInt()); !ok {
				return failf("C11/final-undelegate-fails", "actor %d cannot undelegate its %s tokens (%s shares) from %s at the end of the history %s", i, tokens, d.Shares, val, p)
			}
		}
	}
	if fl := e.invariants(ctx, "after final withdraw/undelegate"); fl != nil {
		return fl
	}
	nontrivial := labels["transfer-after-rewards"] || labels["self-transfer"] || labels["transfer-after-slash"]
	var ls []string
	for l := range labels {
		ls = append(ls, l)
	}
	sortStrings(ls)
	kinds := ""
	for _, op := range c.Ops {
		kinds += op.Kind[:3] + fmt.Sprint(op.A%4, op.B%4, op.Frac)
	}
	rec.Case(ev.Sig(kinds), nontrivial, ls...)
	if nontrivial && rec.WantSample() {
		rec.Sample(c)
	}
	return nil
}

func init() { registerReplay("C11", runC11) }

func TestC11(t *testing.T) { drive(t, "C11", genC11, runC11) }

var _ = sdkstakingtypes.ModuleName
