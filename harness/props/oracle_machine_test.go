package props

import (
	"fmt"
	"math/big"
	"os"
	"sort"
	"time"

	sdkmath "cosmossdk.io/math"
	sdk "github.com/cosmos/cosmos-sdk/types"
	"pgregory.net/rapid"

	fxtypes "github.com/functionx/fx-core/v8/types"
	crosschaintypes "github.com/functionx/fx-core/v8/x/crosschain/types"

	"verif/harness/ev"
	"verif/harness/sim"
)

// ---------------------------------------------------------------------------------------------
// Oracle machine shared by C01 (events exactly once, in nonce order) and C02 (66 % quorum of distinct
// registered oracles). A history is pure data; it runs on a branch of the base fixture on a chain that
// has no oracles there, through the real message handlers / precompile / end blocker.
// ---------------------------------------------------------------------------------------------

type omOp struct {
	Kind     string `json:"kind"` // vote | exec | govset | bond | adddelegate | unbond | rebond | leave | endblock | confirm
	O        int    `json:"o,omitempty"`
	NonceSel int    `json:"nonce_sel,omitempty"` // 0 own+1, 1 lastobs+1, 2 own, 3 own+2, 4 far
	Variant  int    `json:"variant,omitempty"`
	Amt      int64  `json:"amt,omitempty"`
	Mask     uint32 `json:"mask,omitempty"`
	Nonce    int    `json:"nonce,omitempty"`
}

type omCase struct {
	Chain        string   `json:"chain"`
	N            int      `json:"n_oracles"`
	Thr          int64    `json:"threshold_fx"`
	Mult         int64    `json:"multiple"`
	Stakes       []int64  `json:"stakes_fx"`
	SignedWindow uint64   `json:"signed_window"`
	Plan         []string `json:"plan"` // claim type per event nonce (1-based)
	Ops          []omOp   `json:"ops"`
}

var omChains = []string{"polygon", "avalanche", "arbitrum"}
var omClaimTypes = []string{"BridgeToken", "SendToFx", "OracleSetUpdated", "BridgeCall", "BridgeCallResult", "SendToExternal"}

func genOmCase(t *rapid.T, maxOracles, maxOps int) omCase {
	c := omCase{Chain: rapid.SampledFrom(omChains).Draw(t, "chain")}
	c.N = rapid.IntRange(1, maxOracles).Draw(t, "n")
	c.Thr = rapid.SampledFrom([]int64{100, 300, 700, 1000, 10000}).Draw(t, "thr")
	c.Mult = rapid.Int64Range(1, 10).Draw(t, "mult")
	dist := rapid.IntRange(0, 3).Draw(t, "dist")
	if dist == 3 {
		// few power units per oracle and stakes that are not whole units: the quorum bar falls between
		// "sum of the voters' powers" and "power of the voters' summed stakes" as often as possible
		c.Thr, c.Mult = 100, 10
	}
	for i := 0; i < c.N; i++ {
		var s int64
		switch dist {
		case 3:
			s = 100*rapid.Int64Range(1, 9).Draw(t, "units") + rapid.SampledFrom([]int64{50, 50, 99, 1, 0}).Draw(t, "part")
		case 0: // uniform in bounds
			s = c.Thr + rapid.Int64Range(0, c.Thr*(c.Mult-1)).Draw(t, "stake")
		case 1: // one whale, many dwarfs
			s = c.Thr
			if i == 0 {
				s = c.Thr * c.Mult
			}
		default: // all minimal
			s = c.Thr
		}
		c.Stakes = append(c.Stakes, s)
	}
	c.SignedWindow = rapid.SampledFrom([]uint64{2, 3, 20000}).Draw(t, "sw")
	np := rapid.IntRange(2, 6).Draw(t, "plan")
	for i := 0; i < np; i++ {
		// weights: mostly parked / cheap types
		ty := rapid.SampledFrom([]string{"BridgeToken", "BridgeToken", "SendToFx", "SendToFx", "OracleSetUpdated", "BridgeCall", "BridgeCallResult", "SendToExternal"}).Draw(t, "ptype")
		c.Plan = append(c.Plan, ty)
	}
	nops := rapid.IntRange(3, maxOps).Draw(t, "nops")
	for i := 0; i < nops; i++ {
		if c.SignedWindow < 100 && rapid.IntRange(0, 11).Draw(t, "slashRevote") == 5 {
			// an oracle votes, misses the signed window and is taken offline, pays its way back online and
			// votes again for the nonce it already voted on (or the next one)
			o := rapid.IntRange(0, c.N-1).Draw(t, "sro")
			c.Ops = append(c.Ops, omOp{Kind: "vote", O: o, NonceSel: 0, Variant: rapid.IntRange(0, 1).Draw(t, "srv")})
			for j := uint64(0); j < c.SignedWindow+2; j++ {
				c.Ops = append(c.Ops, omOp{Kind: "endblock"})
			}
			c.Ops = append(c.Ops, omOp{Kind: "adddelegate", O: o, Amt: 1}, omOp{Kind: "adddelegate", O: o, Amt: c.Thr/10 + 1}, omOp{Kind: "adddelegate", O: o, Amt: c.Thr},
				omOp{Kind: "vote", O: o, NonceSel: rapid.SampledFrom([]int{2, 2, 1, 0}).Draw(t, "srsel"), Variant: rapid.IntRange(0, 1).Draw(t, "srv2")})
			continue
		}
		k := rapid.SampledFrom([]string{"vote", "vote", "vote", "vote", "vote", "vote", "vote", "exec", "exec", "govset", "bond", "adddelegate", "unbond", "rebond", "leave", "endblock", "confirm"}).Draw(t, "kind")
		op := omOp{Kind: k, O: rapid.IntRange(0, c.N-1).Draw(t, "o")}
		switch k {
		case "vote":
			op.NonceSel = rapid.SampledFrom([]int{0, 0, 0, 0, 1, 1, 2, 3, 4}).Draw(t, "sel")
			op.Variant = rapid.SampledFrom([]int{0, 0, 0, 1, 1, 2}).Draw(t, "variant")
		case "exec":
			op.Nonce = rapid.IntRange(1, len(c.Plan)+1).Draw(t, "nonce")
		case "govset":
			op.Mask = rapid.Uint32Range(0, 1<<uint(c.N)-1).Draw(t, "mask")
		case "adddelegate":
			op.Amt = rapid.Int64Range(1, c.Thr*c.Mult).Draw(t, "amt")
		}
		c.Ops = append(c.Ops, op)
	}
	return c
}

// omClaim builds the claim for (nonce, variant) of the plan; deterministic.
func omClaim(c *omCase, f *sim.Fixture, keys []sim.OracleKeys, nonce uint64, variant int) crosschaintypes.ExternalClaim {
	typ := "BridgeToken"
	if int(nonce) >= 1 && int(nonce) <= len(c.Plan) {
		typ = c.Plan[nonce-1]
	}
	id := int(nonce)*10 + variant
	ch := c.Chain
	switch typ {
	case "BridgeToken":
		return &crosschaintypes.MsgBridgeTokenClaim{TokenContract: sim.ExtAddrN(ch, "om-token", id), Name: fmt.Sprintf("Tok %d", id), Symbol: fmt.Sprintf("T%d", id), Decimals: 18}
	case "SendToFx":
		return &crosschaintypes.MsgSendToFxClaim{TokenContract: sim.ExtAddrN(ch, "om-token", 10), Amount: sdkmath.NewInt(int64(100 + variant)), Sender: sim.ExtAddrN(ch, "om-sender", id),
			Receiver: f.Users[variant%len(f.Users)].Acc().String()}
	case "OracleSetUpdated":
		m := &crosschaintypes.MsgOracleSetUpdatedClaim{OracleSetNonce: 0}
		for i := 0; i <= variant && i < len(keys); i++ {
			m.Members = append(m.Members, crosschaintypes.BridgeValidator{Power: uint64(1000 + id), ExternalAddress: keys[i].ExtAddr})
		}
		return m
	case "BridgeCall":
		return &crosschaintypes.MsgBridgeCallClaim{Sender: sim.ExtAddrN(ch, "om-sender", id), Refund: sim.ExtAddrN(ch, "om-refund", id), To: sim.ExtAddrN(ch, "om-to", id),
			Data: "", Value: sdkmath.ZeroInt(), Memo: "", TxOrigin: sim.ExtAddrN(ch, "om-origin", id)}
	case "BridgeCallResult":
		return &crosschaintypes.MsgBridgeCallResultClaim{Nonce: uint64(1 + variant), TxOrigin: sim.ExtAddrN(ch, "om-origin", id), Success: variant%2 == 0}
	case "SendToExternal":
		return &crosschaintypes.MsgSendToExternalClaim{BatchNonce: uint64(1 + variant), TokenContract: sim.ExtAddrN(ch, "om-token", 10)}
	}
	panic(typ)
}

type omModel struct {
	cursor   map[int]uint64          // oracle idx -> last accepted nonce (absent = fresh)
	rebonded map[int]bool            // oracle (re-)bonded since its last accepted vote
	freshAt  map[int]uint64          // a new oracle\'s starting cursor at the time of that (re-)bond
	voted    map[uint64]map[int]int  // nonce -> oracle idx -> times accepted
	votesFor map[string]map[int]bool // nonce/variant -> distinct oracle idx accepted
	executed map[uint64]bool
}

type omStats struct {
	competing      bool // >= 2 variants of one nonce received votes
	observedAny    bool
	membershipOpen bool // stake / membership change while an attestation was open
	observedMulti  bool // observed with >= 2 voters and unequal stakes
	rebond         bool
	leftOpen       bool
	steps          int
}

// runOracleMachine executes the history; which = "C01" or "C02" selects the invariants.
func runOracleMachine(c omCase, which string, rec *ev.Recorder) *Failure {
	f := base()
	ctx, _ := f.Ctx.CacheContext()
	k := f.Keeper(c.Chain)
	ch := c.Chain
	gov := sim.GovAddr.String()

	// params: threshold / multiple / signed window
	p := k.GetParams(ctx)
	p.DelegateThreshold = sim.FxCoin(c.Thr)
	p.DelegateMultiple = c.Mult
	p.SignedWindow = c.SignedWindow
	if r := f.RunMsg(ctx, &crosschaintypes.MsgUpdateParams{ChainName: ch, Authority: gov, Params: p}); !r.OK() {
		return failf("harness", "set params: %v", r.Err)
	}
	keys := make([]sim.OracleKeys, c.N)
	var addrs []string
	for i := range keys {
		keys[i] = sim.NewOracleKeys(ch, i)
		addrs = append(addrs, keys[i].Oracle.Acc().String())
		f.Mint(ctx, keys[i].Oracle.Acc(), sim.FxCoin(c.Thr*c.Mult*30+1000))
	}
	approved := map[int]bool{}
	if r := f.RunMsg(ctx, &crosschaintypes.MsgUpdateChainOracles{ChainName: ch, Authority: gov, Oracles: addrs}); !r.OK() {
		return failf("harness", "approve oracles: %v", r.Err)
	}
	bondMsg := func(i int, stake int64) *crosschaintypes.MsgBondedOracle {
		return &crosschaintypes.MsgBondedOracle{ChainName: ch, OracleAddress: keys[i].Oracle.Acc().String(), BridgerAddress: keys[i].Bridger.Acc().String(),
			ExternalAddress: keys[i].ExtAddr, ValidatorAddress: f.ValKeys[i%len(f.ValKeys)].Val().String(), DelegateAmount: sim.FxCoin(stake)}
	}
	for i := range keys {
		approved[i] = true
		if r := f.RunMsg(ctx, bondMsg(i, c.Stakes[i])); !r.OK() {
			return failf("harness", "bond %d stake %d (thr %d mult %d): %v", i, c.Stakes[i], c.Thr, c.Mult, r.Err)
		}
	}
	m := &omModel{cursor: map[int]uint64{}, rebonded: map[int]bool{}, freshAt: map[int]uint64{}, voted: map[uint64]map[int]int{}, votesFor: map[string]map[int]bool{}, executed: map[uint64]bool{}}
	st := &omStats{}
	height := ctx.BlockHeight()
	idxOf := map[string]int{}
	for i, kk := range keys {
		idxOf[kk.Oracle.Acc().String()] = i
	}
	chainStore := func(cx sdk.Context) map[string]string {
		out := map[string]string{}
		it := cx.KVStore(f.App.GetKey(ch)).Iterator(nil, nil)
		defer it.Close()
		for ; it.Valid(); it.Next() {
			out[string(it.Key())] = string(it.Value())
		}
		return out
	}
	sameStore := func(a, b map[string]string) string {
		d := sim.Diff(sim.Dump{ch: a}, sim.Dump{ch: b})
		return sim.DiffString(d, 8)
	}
	openAttestation := func(cx sdk.Context) bool {
		open := false
		k.IterateAttestations(cx, func(att *crosschaintypes.Attestation) bool {
			if !att.Observed {
				open = true
				return true
			}
			return false
		})
		return open
	}

	for si, op := range c.Ops {
		st.steps++
		sctx, write := ctx.CacheContext()
		lastObsPre := k.GetLastObservedEventNonce(ctx)
		totalPre := k.GetLastTotalPower(ctx)
		o := op.O % c.N
		desc := fmt.Sprintf("step %d %+v", si, op)
		switch op.Kind {
		case "vote":
			var own, fresh uint64
			if lastObsPre >= 1 {
				fresh = lastObsPre - 1
			}
			own = fresh
			if v, ok := m.cursor[o]; ok {
				own = v

			}
			var nonce uint64
			switch op.NonceSel {
			case 0:
				nonce = own + 1
			case 1:
				nonce = lastObsPre + 1
			case 2:
				nonce = own
			case 3:
				nonce = own + 2
			default:
				nonce = own + 50
			}
			if nonce == 0 {
				nonce = 1
			}
			claim := omClaim(&c, f, keys, nonce, op.Variant)
			oraclePre, foundPre := k.GetOracle(ctx, keys[o].Oracle.Acc())
			pre := chainStore(ctx)
			r := f.VoteAs(sctx, ch, keys[o], claim, nonce, uint64(1000)+10*nonce+uint64(op.Variant)) // the height belongs to the event, not to the vote: equal claims hash equal
			key := fmt.Sprintf("%d/%d", nonce, op.Variant)
			if os.Getenv("VERIF_DEBUG") != "" {
				fmt.Printf("  step %d vote o%d nonce %d v%d own=%d lastObs=%d->%d total=%s online=%d codeCursor(pre)=%d -> ok=%v err=%v\n", si, o, nonce, op.Variant, own, lastObsPre, k.GetLastObservedEventNonce(sctx), totalPre, len(k.GetAllOracles(ctx, true)), k.GetLastEventNonceByOracle(ctx, keys[o].Oracle.Acc()), r.OK(), r.Err)
			}
			if !r.OK() {
				if which == "C01" {
					if d := sameStore(pre, chainStore(sctx)); d != "" {
						return failf("C01/rejected-vote-changed-state", "%s: vote rejected (%v) but the chain store changed:\n%s", desc, r.Err, d)
					}
				}
				break
			}
			// accepted
			if which == "C02" {
				if !foundPre || !oraclePre.Online {
					return failf("C02/vote-by-non-online-oracle", "%s: vote accepted although the oracle is not a registered online oracle (found=%v)", desc, foundPre)
				}
			}
			if which == "C01" {
				if nonce != own+1 {
					return failf("C01/non-contiguous-vote", "%s: vote for nonce %d accepted but the oracle's cursor is %d", desc, nonce, own)
				}
				if m.voted[nonce][o] > 0 {
					obs := "unobserved"
					if nonce <= lastObsPre {
						obs = "observed"
					}
					return failf("C01/double-vote/"+obs+"-nonce", "%s: oracle %d voted a second time for event nonce %d (%s before this vote); history: %s", desc, o, nonce, obs, histString(c.Ops[:si+1]))
				}
			}
			if m.voted[nonce] == nil {
				m.voted[nonce] = map[int]int{}
			}
			m.voted[nonce][o]++
			if m.votesFor[key] == nil {
				m.votesFor[key] = map[int]bool{}
			}
			m.votesFor[key][o] = true
			m.cursor[o] = nonce
			m.rebonded[o] = false
			nv := 0
			for v := 0; v < 3; v++ {
				if len(m.votesFor[fmt.Sprintf("%d/%d", nonce, v)]) > 0 {
					nv++
				}
			}
			if nv >= 2 {
				st.competing = true
			}
			lastObsPost := k.GetLastObservedEventNonce(sctx)
			if which == "C01" {
				if lastObsPost != lastObsPre && lastObsPost != lastObsPre+1 {
					return failf("C01/nonce-jump", "%s: last observed event nonce went %d -> %d", desc, lastObsPre, lastObsPost)
				}
				if lastObsPost == lastObsPre+1 && nonce != lastObsPost {
					return failf("C01/observed-other-nonce", "%s: vote for nonce %d made nonce %d observed", desc, nonce, lastObsPost)
				}
			}
			if lastObsPost == lastObsPre+1 {
				st.observedAny = true
				if which == "C02" {
					// quorum: distinct registered oracles that voted for exactly this content, pre-step powers
					S := sdkmath.ZeroInt()
					voters := 0
					distinctStakes := map[string]bool{}
					for oi := range m.votesFor[key] {
						or, found := k.GetOracle(ctx, keys[oi].Oracle.Acc())
						if !found {
							continue
						}
						S = S.Add(or.GetPower())
						voters++
						distinctStakes[or.DelegateAmount.String()] = true
					}
					if voters >= 2 && len(distinctStakes) >= 2 {
						st.observedMulti = true
					}
					lhs := S.MulRaw(100)
					rhs := totalPre.MulRaw(66)
					if lhs.LT(rhs) {
						gap := rhs.Sub(lhs)
						sig := "C02/quorum-below-66"
						if gap.LT(sdkmath.NewInt(100)) {
							sig = "C02/quorum-truncation-gap" // < 1 power unit below 66 %: integer truncation of 66*T/100
						}
						return failf(sig, "%s: event nonce %d observed with voter power %s of recorded total %s (%s%% < 66%%); voters=%v", desc, nonce, S, totalPre, pct(S, totalPre), keysOf(m.votesFor[key]))
					}
				}
			}
		case "exec":
			nonce := uint64(op.Nonce)
			_, pending := k.GetPendingExecuteClaim(ctx, nonce)
			pre := chainStore(ctx)
			preBank := bankStore(f, ctx)
			r := f.ExecuteClaim(sctx, f.Users[1], ch, nonce)
			if which == "C01" {
				if r.Success() {
					if !pending {
						return failf("C01/executed-without-pending-claim", "%s: executeClaim(%d) succeeded although no claim was pending (already executed=%v)", desc, nonce, m.executed[nonce])
					}
					if m.executed[nonce] {
						return failf("C01/executed-twice", "%s: claim %d executed a second time", desc, nonce)
					}
					if _, still := k.GetPendingExecuteClaim(sctx, nonce); still {
						return failf("C01/pending-after-execute", "%s: claim %d still pending after successful execution", desc, nonce)
					}
					m.executed[nonce] = true
				} else {
					if d := sameStore(pre, chainStore(sctx)); d != "" {
						return failf("C01/failed-exec-changed-state", "%s: executeClaim(%d) failed but the chain store changed:\n%s", desc, nonce, d)
					}
					if d := sim.DiffString(sim.Diff(sim.Dump{"bank": preBank}, sim.Dump{"bank": bankStore(f, sctx)}), 5); d != "" {
						return failf("C01/failed-exec-changed-bank", "%s: executeClaim(%d) failed but balances changed:\n%s", desc, nonce, d)
					}
				}
			} else if r.Success() {
				m.executed[nonce] = true
			}
		case "govset":
			var list []string
			newApproved := map[int]bool{}
			for i := range keys {
				if op.Mask&(1<<uint(i)) != 0 {
					list = append(list, keys[i].Oracle.Acc().String())
					newApproved[i] = true
				}
			}
			if len(list) == 0 {
				break
			}
			open := openAttestation(ctx)
			r := f.RunMsg(sctx, &crosschaintypes.MsgUpdateChainOracles{ChainName: ch, Authority: gov, Oracles: list})
			if r.OK() {
				approved = newApproved
				if open {
					st.membershipOpen = true
				}
			}
		case "bond":
			r := f.RunMsg(sctx, bondMsg(o, c.Stakes[o]))
			if r.OK() {
				m.rebonded[o] = true
				// a cursor older than a new oracle's starting point is dropped at the bond: from then on the oracle
				// starts, like a new one, at (last observed - 1) as of the moment it votes
				if lo := k.GetLastObservedEventNonce(ctx); lo >= 1 {
					if v, ok := m.cursor[o]; ok && v < lo-1 {
						delete(m.cursor, o)
					}
				}
				if openAttestation(ctx) {
					st.membershipOpen = true
				}
			}
		case "adddelegate":
			r := f.RunMsg(sctx, &crosschaintypes.MsgAddDelegate{ChainName: ch, OracleAddress: keys[o].Oracle.Acc().String(), Amount: sim.FxCoin(op.Amt)})
			if r.OK() && openAttestation(ctx) {
				st.membershipOpen = true
			}
		case "unbond":
			r := f.RunMsg(sctx, &crosschaintypes.MsgUnbondedOracle{ChainName: ch, OracleAddress: keys[o].Oracle.Acc().String()})
			_ = r
		case "rebond", "leave":
			// governance removes oracle o, o withdraws (record + cursor deleted), governance re-approves, o bonds again
			// ("leave" stops after the withdrawal: votes the oracle cast earlier stay in open attestations although it is no longer registered)
			var list []string
			for i := range keys {
				if i != o && approved[i] {
					list = append(list, keys[i].Oracle.Acc().String())
				}
			}
			if len(list) == 0 || !approved[o] {
				break
			}
			open := openAttestation(ctx)
			if r := f.RunMsg(sctx, &crosschaintypes.MsgUpdateChainOracles{ChainName: ch, Authority: gov, Oracles: list}); !r.OK() {
				break
			}
			// the unbonding period passes (real staking end blocker), only then can the stake be withdrawn
			if ut, err := f.App.StakingKeeper.UnbondingTime(sctx); err == nil {
				height++
				sctx = sctx.WithBlockHeight(height).WithBlockTime(sctx.BlockTime().Add(ut + time.Hour))
				ctx = ctx.WithBlockHeight(height).WithBlockTime(sctx.BlockTime())
				if _, err := f.App.StakingKeeper.BlockValidatorUpdates(sctx); err != nil {
					return failf("harness", "staking end block: %v", err)
				}
			}
			if r := f.RunMsg(sctx, &crosschaintypes.MsgUnbondedOracle{ChainName: ch, OracleAddress: keys[o].Oracle.Acc().String()}); !r.OK() {
				delete(approved, o)
				break
			}
			if op.Kind == "leave" {
				delete(approved, o)
				if open {
					st.membershipOpen = true
					st.leftOpen = true
				}
				break
			}
			list = append(list, keys[o].Oracle.Acc().String())
			if r := f.RunMsg(sctx, &crosschaintypes.MsgUpdateChainOracles{ChainName: ch, Authority: gov, Oracles: list}); !r.OK() {
				delete(approved, o)
				break
			}
			if r := f.RunMsg(sctx, bondMsg(o, c.Stakes[o])); r.OK() {
				st.rebond = true
				m.rebonded[o] = true
				// a cursor older than a new oracle's starting point is dropped at the bond: from then on the oracle
				// starts, like a new one, at (last observed - 1) as of the moment it votes
				if lo := k.GetLastObservedEventNonce(ctx); lo >= 1 {
					if v, ok := m.cursor[o]; ok && v < lo-1 {
						delete(m.cursor, o)
					}
				}
				if open {
					st.membershipOpen = true
				}
			}
		case "endblock":
			height++
			sctx = sctx.WithBlockHeight(height).WithBlockTime(sctx.BlockTime().Add(5 * time.Second))
			ctx = ctx.WithBlockHeight(height).WithBlockTime(ctx.BlockTime().Add(5 * time.Second))
			open := openAttestation(ctx)
			onlineBefore := len(k.GetAllOracles(ctx, true))
			func() {
				defer func() { _ = recover() }() // halting is C07's business
				k.EndBlocker(sctx)
			}()
			if len(k.GetAllOracles(sctx, true)) != onlineBefore && open {
				st.membershipOpen = true
			}
		case "confirm":
			// oracle o confirms every pending oracle set (so that it is not slashed)
			k.IterateOracleSets(ctx, false, func(os *crosschaintypes.OracleSet) bool {
				if msg := f.OracleSetConfirmMsg(ctx, ch, keys[o], os); msg != nil {
					f.RunMsg(sctx, msg)
				}
				return false
			})
		}
		write()
		// state invariants after every step
		if which == "C01" {
			if fl := omCheckAttestations(k, ctx, desc); fl != nil {
				return fl
			}
		}
		if which == "C02" {
			total := k.GetLastTotalPower(ctx)
			sum := sdkmath.ZeroInt()
			for _, or := range k.GetAllOracles(ctx, true) {
				sum = sum.Add(or.GetPower())
			}
			if total.LT(sum) {
				return failf("C02/total-power-below-online-power", "%s: recorded total power %s < power of online oracles %s; history: %s", desc, total, sum, histString(c.Ops[:si+1]))
			}
		}
	}
	// evidence classification
	nontrivial := (st.competing && st.observedAny) || st.membershipOpen
	if which == "C02" {
		nontrivial = st.observedMulti || st.membershipOpen
	}
	var labels []string
	if st.competing {
		labels = append(labels, "competing-variants")
	}
	if st.observedAny {
		labels = append(labels, "observed")
	}
	if st.membershipOpen {
		labels = append(labels, "membership-change-while-open")
	}
	if st.leftOpen {
		labels = append(labels, "oracle-withdrew-while-attestation-open")
	}
	if st.rebond {
		labels = append(labels, "rebond-cycle")
	}
	if st.observedMulti {
		labels = append(labels, "observed-multi-voter-unequal-stake")
	}
	if len(m.executed) > 0 {
		labels = append(labels, "executed-claim")
	}
	rec.Label("steps", st.steps)
	kinds := ""
	for _, op := range c.Ops {
		kinds += op.Kind[:2] + fmt.Sprint(op.NonceSel, op.Variant)
	}
	rec.Case(ev.Sig(which, c.N, c.Plan, kinds), nontrivial, labels...)
	if nontrivial && rec.WantSample() {
		rec.Sample(c)
	}
	return nil
}

// omCheckAttestations: per nonce at most one observed attestation; observed nonces are exactly
// 1..lastObserved among the stored ones (no gap, none above).
func omCheckAttestations(k interface {
	IterateAttestationAndClaim(sdk.Context, func(*crosschaintypes.Attestation, crosschaintypes.ExternalClaim) bool)
	GetLastObservedEventNonce(sdk.Context) uint64
}, ctx sdk.Context, desc string) *Failure {
	last := k.GetLastObservedEventNonce(ctx)
	observed := map[uint64]int{}
	k.IterateAttestationAndClaim(ctx, func(att *crosschaintypes.Attestation, claim crosschaintypes.ExternalClaim) bool {
		if att.Observed {
			observed[claim.GetEventNonce()]++
		}
		return false
	})
	for n, cnt := range observed {
		if cnt > 1 {
			return failf("C01/two-observed-attestations", "%s: event nonce %d has %d observed attestations", desc, n, cnt)
		}
		if n > last {
			return failf("C01/observed-above-last", "%s: nonce %d observed but last observed is %d", desc, n, last)
		}
	}
	lo := uint64(1)
	if last > crosschaintypes.MaxKeepEventSize {
		lo = last - crosschaintypes.MaxKeepEventSize + 1
	}
	for n := lo; n <= last; n++ {
		if observed[n] != 1 {
			return failf("C01/gap", "%s: nonce %d <= last observed %d has %d observed attestations", desc, n, last, observed[n])
		}
	}
	return nil
}

func bankStore(f *sim.Fixture, ctx sdk.Context) map[string]string {
	out := map[string]string{}
	it := ctx.KVStore(f.App.GetKey("bank")).Iterator(nil, nil)
	defer it.Close()
	for ; it.Valid(); it.Next() {
		out[string(it.Key())] = string(it.Value())
	}
	return out
}

func pct(a, b sdkmath.Int) string {
	if b.IsZero() {
		return "n/a"
	}
	x := new(big.Rat).SetFrac(a.MulRaw(100).BigInt(), b.BigInt())
	return x.FloatString(2)
}

func keysOf(m map[int]bool) []int {
	var out []int
	for k := range m {
		out = append(out, k)
	}
	sort.Ints(out)
	return out
}

func histString(ops []omOp) string {
	s := ""
	for _, o := range ops {
		switch o.Kind {
		case "vote":
			s += fmt.Sprintf("vote(o%d,sel%d,v%d) ", o.O, o.NonceSel, o.Variant)
		case "exec":
			s += fmt.Sprintf("exec(%d) ", o.Nonce)
		case "govset":
			s += fmt.Sprintf("govset(%b) ", o.Mask)
		default:
			s += fmt.Sprintf("%s(o%d) ", o.Kind, o.O)
		}
	}
	return s
}

var _ = fxtypes.DefaultDenom
