#!/usr/bin/env python3
"""Regenerate MANIFEST.json from tools/plan.py + tools/manifest_meta.py."""
import json, os, sys
sys.path.insert(0, os.path.dirname(__file__))
from plan import PLAN
from manifest_meta import META, NOT_YET, HOOK_COMMITS

props = [json.loads(l) for l in open(os.path.join(os.path.dirname(__file__), "..", "properties.jsonl"))]
checks, na = [], []
for p in props:
    pid = p["id"]
    if pid in PLAN and pid in META:
        m = META[pid]
        checks.append(dict(
            property_id=pid,
            quick_cmd=f"./check {pid} quick",
            thorough_cmd=f"./check {pid} thorough",
            evidence_file=f"/verif/evidence/{pid}.json",
            replay_cmd_template="./check --replay {path}",
            engine="rapid-harness",
            level_claimed=dict(category=PLAN[pid].get("level", "exploration"), text=m["text"], design_ref=m.get("design_ref", "DESIGN.md §3 " + pid)),
            level_note=m["note"],
            technique=m["technique"],
        ))
    else:
        na.append(dict(property_id=pid, reason=NOT_YET.get(pid, "check not built yet in this session; see DESIGN.md §3 for the planned generator and oracle")))
man = dict(
    version=1,
    setup_cmd="./check --build",
    hooks=dict(guard="verif", enable="go test -c -tags verif (the harness module replaces github.com/functionx/fx-core/v8 with /repo)",
               baseline_off_cmd="cd /repo && go test -mod=mod -vet=off -count=1 -timeout 25m ./...",
               source_commits=HOOK_COMMITS, add_only=True),
    engines=[dict(name="rapid-harness", path="/verif/harness", serves_properties=[c["property_id"] for c in checks],
                  kind_free_text="Go test binary (pgregory.net/rapid v1.3.0 generators + native go fuzz targets) linked against /repo's working tree; real fxcore app per case; driver ./check shards it over 16 cores")],
    checks=checks,
    notes="All checks are property-based tests / fuzzers against the real application (no mocked keepers). exit 2 = inconclusive (infrastructure), never reported as violation. known_findings.json lists repaired ('fixed') and recorded ('finding') defects.",
    not_applicable=na,
)
json.dump(man, open(os.path.join(os.path.dirname(__file__), "..", "MANIFEST.json"), "w"), indent=1)
print("checks:", [c["property_id"] for c in checks], "na:", len(na))
