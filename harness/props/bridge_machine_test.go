package props

import (
	"bytes"
	"encoding/hex"
	"fmt"
	"math/big"
	"sort"
	"strings"

	sdkmath "cosmossdk.io/math"
	sdk "github.com/cosmos/cosmos-sdk/types"
	authtypes "github.com/cosmos/cosmos-sdk/x/auth/types"
	"github.com/ethereum/go-ethereum/common"
	"pgregory.net/rapid"

	fxtypes "github.com/functionx/fx-core/v8/types"
	crosschaintypes "github.com/functionx/fx-core/v8/x/crosschain/types"
	erc20types "github.com/functionx/fx-core/v8/x/erc20/types"
	fxgovtypes "github.com/functionx/fx-core/v8/x/gov/types"

	"verif/harness/ev"
	"verif/harness/sim"
)

// ---------------------------------------------------------------------------------------------
// Bridge machine shared by C04 (solvency ledger), C05 (every outgoing transfer in exactly one
// place, settled once; reference model of pool / batches / calls) and C06 (release only after the
// external chain is provably past the timeout; the harness plays the external contract).
// Histories are pure data; they run on a branch of the base fixture (3 chains, 3 oracles each,
// tokens FX / USDT (module-owned, multi-chain) / EXT (externally-owned)) through Cosmos messages,
// precompile calls and oracle claims.
// ---------------------------------------------------------------------------------------------

type bmOp struct {
	Kind  string `json:"kind"`
	U     int    `json:"u,omitempty"`
	Tok   int    `json:"tok,omitempty"`
	Chain int    `json:"chain,omitempty"`
	Amt   int64  `json:"amt,omitempty"`
	Fee   int64  `json:"fee,omitempty"`
	Idx   int    `json:"idx,omitempty"`
	EVM   bool   `json:"evm,omitempty"`
	Flag  bool   `json:"flag,omitempty"`
	N     int64  `json:"n,omitempty"`
}

type bmCase struct {
	Ops []bmOp `json:"ops"`
	// per-chain parameter choices (indexes into small tables)
	BatchTimeoutMs []uint64 `json:"batch_timeout_ms"`
	CallTimeoutMs  []uint64 `json:"call_timeout_ms"`
	ExtBlockMs     []uint64 `json:"ext_block_ms"`
	FxBlockMs      []uint64 `json:"fx_block_ms"`
	ResetHeight    []bool   `json:"reset_observed_height"` // governance raw-store update wipes the last observed external height
}

var bmKinds = []string{"send", "send", "send", "send", "cancel", "incfee", "batch", "batch", "batch", "batchexec", "bridgecall", "deposit", "deposit", "inboundcall", "exec", "exec", "batchexec", "batchexec", "callresult", "tick", "tick", "fxblocks"}

// generator alphabet: the machine's operations plus the composite "sendbatch"
var bmKindsGen = append(append([]string{}, bmKinds...), "sendbatch", "sendbatch", "cancel", "tick", "callresult", "callresult", "bridgecall", "nonmonotone")

func genBmCase(t *rapid.T, maxOps int) bmCase {
	c := bmCase{}
	for range baseChains {
		c.BatchTimeoutMs = append(c.BatchTimeoutMs, rapid.SampledFrom([]uint64{60_000, 120_000, 43_200_000}).Draw(t, "bto"))
		c.CallTimeoutMs = append(c.CallTimeoutMs, rapid.SampledFrom([]uint64{3_600_001, 7_200_000, 604_800_000}).Draw(t, "cto"))
		c.ExtBlockMs = append(c.ExtBlockMs, rapid.SampledFrom([]uint64{100, 3_000, 15_000, 60_000}).Draw(t, "ebt"))
		c.FxBlockMs = append(c.FxBlockMs, rapid.SampledFrom([]uint64{100, 5_000, 7_000}).Draw(t, "fbt"))
		c.ResetHeight = append(c.ResetHeight, rapid.IntRange(0, 14).Draw(t, "reset") == 0)
	}
	// most operations of a history work on one (chain, token) pair, so that queues, batches and
	// timeouts of the same token pile up; the rest is spread over everything
	focusTok := rapid.SampledFrom([]int{0, 1, 1, 2, 2}).Draw(t, "focusTok")
	focusChain := rapid.SampledFrom([]int{0, 0, 1, 2}).Draw(t, "focusChain")
	n := rapid.IntRange(4, maxOps).Draw(t, "nops")
	for i := 0; i < n; i++ {
		op := bmOp{Kind: rapid.SampledFrom(bmKindsGen).Draw(t, "kind")}
		if rapid.IntRange(0, 399).Draw(t, "floodRoll") == 137 { // (rapid favours the bounds of a range: an inner value keeps this rare)
			op.Kind = "flood"
		}
		op.U = rapid.IntRange(0, 2).Draw(t, "u")
		op.Tok = rapid.SampledFrom([]int{0, 1, 1, 1, 2, 2}).Draw(t, "tok")
		op.Chain = rapid.SampledFrom([]int{0, 0, 1, 2}).Draw(t, "chain")
		op.Amt = rapid.Int64Range(1, 5000).Draw(t, "amt")
		op.Fee = rapid.Int64Range(1, 50).Draw(t, "fee")
		op.Idx = rapid.IntRange(0, 7).Draw(t, "idx")
		op.EVM = rapid.Bool().Draw(t, "evm")
		op.Flag = rapid.Bool().Draw(t, "flag")
		switch op.Kind {
		case "tick":
			op.N = rapid.SampledFrom([]int64{0, 1, 1, 5, 50, 500, 5000, 100000}).Draw(t, "dh")
			if rapid.IntRange(0, 2).Draw(t, "boundary") == 0 {
				op.N = -int64(rapid.IntRange(1, 3).Draw(t, "b")) // -1,-2,-3: jump to (an open object's timeout) -1, +0, +1
			}
		case "fxblocks":
			op.N = rapid.SampledFrom([]int64{1, 1, 3, 20, 1000}).Draw(t, "fb")
		case "batch":
			op.Amt = rapid.SampledFrom([]int64{0, 0, 1, 10, 30}).Draw(t, "basefee")
			op.Fee = rapid.SampledFrom([]int64{1, 1, 20, 100}).Draw(t, "minfee")
		}
		if rapid.IntRange(0, 9).Draw(t, "focus") < 7 {
			op.Tok, op.Chain = focusTok, focusChain
		}
		if op.Kind == "nonmonotone" {
			// a batch built after many unobserved fxcore blocks (far projected timeout), then an event
			// that resets the projection, a newer batch of the same token (nearer timeout), and jumps of
			// the observed height around the nearest timeout
			mk := func(kind string, j int) bmOp {
				o := op
				o.Kind, o.U, o.Idx = kind, (op.U+j)%3, (op.Idx+j)%8
				return o
			}
			far := mk("fxblocks", 0)
			far.N = rapid.SampledFrom([]int64{20, 1000, 1000}).Draw(t, "far")
			a := mk("batch", 0)
			a.Amt, a.Fee = 0, 1
			ev := mk("tick", 0)
			ev.N = rapid.SampledFrom([]int64{0, 1, 5}).Draw(t, "resetTick")
			c.Ops = append(c.Ops, mk("send", 0), far, a, ev, mk("send", 1), mk("send", 2), a)
			for j := rapid.IntRange(1, 2).Draw(t, "jumps"); j > 0; j-- {
				b := mk("tick", 0)
				b.N = -int64(rapid.IntRange(1, 3).Draw(t, "b"))
				c.Ops = append(c.Ops, b)
			}
			continue
		}
		if op.Kind == "tick" && rapid.IntRange(0, 5).Draw(t, "lagging") == 0 {
			// an outgoing object, many fxcore blocks without any event, then an event that reports a height below the previous one
			mk := func(kind string, n int64) bmOp {
				o := op
				o.Kind, o.N = kind, n
				return o
			}
			b := mk("batch", 0)
			b.Amt, b.Fee = 0, 1
			c.Ops = append(c.Ops, mk("bridgecall", 0), mk("send", 0), b, mk("fxblocks", rapid.SampledFrom([]int64{1000, 1000, 20}).Draw(t, "lagGap")),
				mk("tick", -int64(rapid.SampledFrom([]int{10, 14, 509}).Draw(t, "lagBy"))))
			continue
		}
		if op.Kind == "flood" {
			// more queued transfers of one token than a batch takes (the batch size is 100), then a batch
			k := rapid.IntRange(99, 103).Draw(t, "flood")
			for j := 0; j < k; j++ {
				snd := op
				snd.Kind, snd.U, snd.Idx, snd.EVM, snd.Amt, snd.Fee = "send", j%3, j%7, false, int64(1+j%5), int64(1+j%3)
				c.Ops = append(c.Ops, snd)
			}
			op.Kind, op.Amt, op.Fee = "batch", 0, 1
		}
		if op.Kind == "sendbatch" {
			// one to three transfers followed by a batch request for their token
			k := rapid.IntRange(1, 3).Draw(t, "sb")
			for j := 0; j < k; j++ {
				snd := op
				snd.Kind, snd.U, snd.Idx = "send", (op.U+j)%3, (op.Idx+j)%8
				c.Ops = append(c.Ops, snd)
			}
			op.Kind, op.Amt, op.Fee = "batch", 0, 1
		}
		c.Ops = append(c.Ops, op)
	}
	return c
}

type bmTx struct {
	ID     uint64
	Chain  string
	Tok    int
	Sender int
	Dest   string
	Amount int64
	Fee    int64
	State  string // pool | batch | executed | refunded
	Batch  uint64
	EVM    bool // created through the precompile or by a Cosmos message
}
type bmBatch struct {
	Chain   string
	Tok     int
	Nonce   uint64
	TxIDs   []uint64
	Timeout uint64
	Block   uint64
	State   string // open | executed | cancelled
}
type bmCall struct {
	Chain    string
	Nonce    uint64
	Sender   int
	Tok      int
	Amt      int64
	Timeout  uint64
	State    string // open | executed | refunded
	ResultAt uint64 // event nonce of the observed result claim (0 = none)
	ResultOK bool
	Inbound  bool // refund record created by a failed inbound call (not modelled further)
	EVM      bool // created through the precompile (refunds come back as ERC-20) or by a Cosmos message (as coins)
}

type bmState struct {
	proven map[string]uint64 // per chain: highest external height carried by an observed event (model side)
	lag    uint64            // the next observed event reports a height this much below the external chain's own height
	f              *sim.Fixture
	ctx            sdk.Context
	which          string
	txs            map[string]*bmTx    // chain/id
	batches        map[string]*bmBatch // chain/nonce
	calls          map[string]*bmCall  // chain/nonce
	txOrder        []string
	extH           map[string]uint64
	lastBatchExec  map[string]uint64   // chain/tok -> last executed batch nonce on the model contract
	pending        map[string][]uint64 // chain -> parked claim nonces
	deposits       map[int]*big.Int    // per token group
	withdrawn      map[int]*big.Int
	initial        map[int]*big.Int
	labels         map[string]bool
	observedHeight map[string]bool
	outstanding    map[string]int64 // chain/tok: executed withdrawals - deposits (for tokens that originate on fxcore)
	liq0           map[string]int64 // chain/tok: what the bridge side of a module-owned token held at the start
	depCh          map[string]int64 // chain/tok: deposits observed
	wdCh           map[string]int64 // chain/tok: withdrawals observed as executed
	erc20Pool0     map[string]int64 // chain/tok: bridge denomination held by the erc20 module at the start
	erc20PoolLast  map[string]int64 // ... at the last look
	everParked     map[string]int64 // ... sum of all increases seen (bridge-call refunds parking it there)
	rec            *ev.Recorder
}

func (s *bmState) tok(i int) *sim.Token { return s.f.Tokens[i%len(s.f.Tokens)] }

// held = sum over tracked users of every representation of the token group.
func (s *bmState) heldBy(ctx sdk.Context, u int, ti int) *big.Int {
	t := s.tok(ti)
	acc := s.f.Users[u]
	sum := new(big.Int)
	bal := s.f.App.BankKeeper.GetAllBalances(ctx, acc.Acc())
	sum.Add(sum, bal.AmountOf(t.Base).BigInt())
	for _, d := range t.Bridge {
		if d != t.Base {
			sum.Add(sum, bal.AmountOf(d).BigInt())
		}
	}
	sum.Add(sum, s.f.BalanceOf(ctx, t.ERC20, acc.Hex()))
	return sum
}

// coinFormOf is the part of heldBy that sits in the bank module (base + bridge denominations).
func (s *bmState) coinFormOf(ctx sdk.Context, u int, ti int) *big.Int {
	t := s.tok(ti)
	bal := s.f.App.BankKeeper.GetAllBalances(ctx, s.f.Users[u].Acc())
	sum := new(big.Int).Set(bal.AmountOf(t.Base).BigInt())
	for _, d := range t.Bridge {
		if d != t.Base {
			sum.Add(sum, bal.AmountOf(d).BigInt())
		}
	}
	return sum
}

func (s *bmState) held(ctx sdk.Context, ti int) *big.Int {
	sum := new(big.Int)
	for u := range s.f.Users {
		sum.Add(sum, s.heldBy(ctx, u, ti))
	}
	return sum
}

func (s *bmState) tokOfContract(chain, contract string) int {
	for i, t := range s.f.Tokens {
		if t.Contracts[chain] == contract {
			return i
		}
	}
	return -1
}

// inFlight / pendingInbound read from the raw stores.
func (s *bmState) inFlight(ctx sdk.Context, ti int) *big.Int {
	return s.inFlightOn(ctx, ti, baseChains...)
}

func (s *bmState) inFlightOn(ctx sdk.Context, ti int, chains ...string) *big.Int {
	sum := new(big.Int)
	for _, ch := range chains {
		k := s.f.Keeper(ch)
		for _, tx := range k.GetUnbatchedTransactions(ctx) {
			if s.tokOfContract(ch, tx.Token.Contract) == ti {
				sum.Add(sum, tx.Token.Amount.BigInt())
				sum.Add(sum, tx.Fee.Amount.BigInt())
			}
		}
		for _, b := range k.GetOutgoingTxBatches(ctx) {
			for _, tx := range b.Transactions {
				if s.tokOfContract(ch, tx.Token.Contract) == ti {
					sum.Add(sum, tx.Token.Amount.BigInt())
					sum.Add(sum, tx.Fee.Amount.BigInt())
				}
			}
		}
		k.IterateOutgoingBridgeCalls(ctx, func(c *crosschaintypes.OutgoingBridgeCall) bool {
			if mc := s.calls[bmKey(ch, c.Nonce)]; mc != nil && mc.ResultAt != 0 && mc.ResultOK {
				return false // the external chain reported its execution: the value has left (counted as withdrawn)
			}
			for _, tk := range c.Tokens {
				if s.tokOfContract(ch, tk.Contract) == ti {
					sum.Add(sum, tk.Amount.BigInt())
				}
			}
			return false
		})
	}
	return sum
}

func (s *bmState) pendingInbound(ctx sdk.Context, ti int) *big.Int {
	return s.pendingInboundOn(ctx, ti, baseChains...)
}

func (s *bmState) pendingInboundOn(ctx sdk.Context, ti int, chains ...string) *big.Int {
	sum := new(big.Int)
	for _, ch := range chains {
		k := s.f.Keeper(ch)
		for _, n := range s.pending[ch] {
			cl, ok := k.GetPendingExecuteClaim(ctx, n)
			if !ok {
				continue
			}
			switch c := cl.(type) {
			case *crosschaintypes.MsgSendToFxClaim:
				if s.tokOfContract(ch, c.TokenContract) == ti {
					sum.Add(sum, c.Amount.BigInt())
				}
			case *crosschaintypes.MsgBridgeCallClaim:
				for i, tc := range c.TokenContracts {
					if s.tokOfContract(ch, tc) == ti {
						sum.Add(sum, c.Amounts[i].BigInt())
					}
				}
			}
		}
	}
	return sum
}

// chainLiquidity is what a module-owned token's contract on one external chain can still pay out
// according to the history: what it held at the start + deposits executed - withdrawals executed -
// what is queued towards it. parked is the part of it that bridge-call refunds left in the erc20
// module's conversion pool instead of the chain's bridge module (known finding).
func (s *bmState) chainLiquidity(ctx sdk.Context, ti int, ch string) (liq *big.Int, parked *big.Int) {
	key := ch + "/" + fmt.Sprint(ti)
	liq = big.NewInt(s.liq0[key] + s.depCh[key] - s.wdCh[key])
	liq.Sub(liq, s.pendingInboundOn(ctx, ti, ch))
	liq.Sub(liq, s.inFlightOn(ctx, ti, ch))
	// cumulative: what was ever parked there stays missing on the bridge side even after somebody has drawn it
	// from the conversion pool again (MsgConvertDenom, fee increases through the precompile)
	pool := s.f.App.BankKeeper.GetBalance(ctx, authtypes.NewModuleAddress(erc20types.ModuleName), s.tok(ti).Bridge[ch]).Amount.Int64()
	last, seen := s.erc20PoolLast[key]
	if !seen {
		last = s.erc20Pool0[key]
	}
	if pool > last {
		s.everParked[key] += pool - last
	}
	s.erc20PoolLast[key] = pool
	return liq, big.NewInt(s.everParked[key])
}

func (s *bmState) ledger(ctx sdk.Context, desc string) *Failure {
	for ti := range s.f.Tokens {
		lhs := new(big.Int).Add(s.held(ctx, ti), s.inFlight(ctx, ti))
		lhs.Add(lhs, s.pendingInbound(ctx, ti))
		rhs := new(big.Int).Add(s.initial[ti], s.deposits[ti])
		rhs.Sub(rhs, s.withdrawn[ti])
		if s.tok(ti).Kind == sim.KindModule {
			// a token that lives on several external chains: what is queued towards one chain plus what
			// was executed there never exceeds what came in through that chain (its contract holds no more)
			for _, ch := range baseChains {
				key := ch + "/" + fmt.Sprint(ti)
				liq, _ := s.chainLiquidity(ctx, ti, ch)
				if liq.Sign() < 0 {
					return failf("C04/chain-overdrawn/"+s.tok(ti).Kind, "%s: token %s on %s: in flight %s + executed withdrawals %d exceed what the chain's contract holds (initial %d + executed deposits %s): short by %s",
						desc, s.tok(ti).Name, ch, s.inFlightOn(ctx, ti, ch), s.wdCh[key], s.liq0[key], new(big.Int).Sub(big.NewInt(s.depCh[key]), s.pendingInboundOn(ctx, ti, ch)), new(big.Int).Neg(liq))
				}
			}
		}
		if lhs.Cmp(rhs) != 0 {
			return failf("C04/ledger-imbalance/"+s.tok(ti).Kind, "%s: token %s: held %s + in flight %s + pending inbound %s = %s, but initial %s + deposits %s - executed withdrawals %s = %s (difference %s)",
				desc, s.tok(ti).Name, s.held(ctx, ti), s.inFlight(ctx, ti), s.pendingInbound(ctx, ti), lhs, s.initial[ti], s.deposits[ti], s.withdrawn[ti], rhs, new(big.Int).Sub(lhs, rhs))
		}
	}
	return nil
}

// observe has all three oracles vote; returns the event nonce; the claim is observed or the step fails.
func (s *bmState) observe(ctx sdk.Context, ch string, claim crosschaintypes.ExternalClaim) (uint64, error) {
	h := s.extH[ch] - s.lag
	n, err := s.f.Observe(ctx, ch, claim, h)
	if err == nil && h > s.proven[ch] {
		s.proven[ch] = h // the highest external height any observed event carried: what is proven about the external chain
	}
	return n, err
}

// observeFailure turns a failed admissible observation into a failure: a handler panic is a violation
// (the event can never be observed: every vote that would cross the quorum panics), anything else a harness error.
func (s *bmState) observeFailure(err error, desc, what string) *Failure {
	if oe, ok := err.(*sim.ObserveError); ok && oe.Panic != "" {
		// the token whose denomination the bank error names identifies the kind
		kind := "unknown"
		for _, t := range s.f.Tokens {
			if strings.Contains(oe.Err.Error(), t.Base+" is smaller") || strings.Contains(oe.Err.Error(), t.Base+":") {
				kind = t.Kind
			}
		}
		return failf(s.which+"/claim-handler-panic/"+panicSite(oe.Panic)+"/"+kind, "%s: %s: the vote that makes the event observed panics, so the event (and every later one) can never take effect: %v\n%s", desc, what, oe.Err, trimStack(oe.Panic))
	}
	return failf("harness", "%s: %s: %v", desc, what, err)
}

func bmKey(ch string, n uint64) string { return fmt.Sprintf("%s/%d", ch, n) }

// modelCompare (C05): stores == model.
func (s *bmState) modelCompare(ctx sdk.Context, desc string) *Failure {
	for _, ch := range baseChains {
		k := s.f.Keeper(ch)
		seen := map[uint64]string{}
		for _, tx := range k.GetUnbatchedTransactions(ctx) {
			if prev, dup := seen[tx.Id]; dup {
				return failf("C05/tx-in-two-places", "%s: %s tx %d is in the pool and in %s", desc, ch, tx.Id, prev)
			}
			seen[tx.Id] = "pool"
			m, ok := s.txs[bmKey(ch, tx.Id)]
			if !ok {
				return failf("C05/unknown-tx-in-pool", "%s: %s pool holds tx %d the model never created: %v", desc, ch, tx.Id, tx)
			}
			if m.State != "pool" {
				return failf("C05/tx-state/pool-vs-"+m.State, "%s: %s tx %d is in the pool but the model says %s", desc, ch, tx.Id, m.State)
			}
			if f := s.cmpTx(ch, tx, m, desc); f != nil {
				return f
			}
		}
		for _, b := range k.GetOutgoingTxBatches(ctx) {
			mb, ok := s.batches[bmKey(ch, b.BatchNonce)]
			if !ok || mb.State != "open" {
				return failf("C05/unexpected-batch", "%s: %s batch %d is stored but the model says %v", desc, ch, b.BatchNonce, mb)
			}
			for _, tx := range b.Transactions {
				if prev, dup := seen[tx.Id]; dup {
					return failf("C05/tx-in-two-places", "%s: %s tx %d is in batch %d and in %s", desc, ch, tx.Id, b.BatchNonce, prev)
				}
				seen[tx.Id] = fmt.Sprintf("batch %d", b.BatchNonce)
				m, ok := s.txs[bmKey(ch, tx.Id)]
				if !ok || m.State != "batch" || m.Batch != b.BatchNonce {
					return failf("C05/tx-state/batch", "%s: %s tx %d is in batch %d but the model says %+v", desc, ch, tx.Id, b.BatchNonce, m)
				}
				if f := s.cmpTx(ch, tx, m, desc); f != nil {
					return f
				}
			}
		}
		for key, m := range s.txs {
			if m.Chain != ch {
				continue
			}
			if (m.State == "pool" || m.State == "batch") && seen[m.ID] == "" {
				return failf("C05/tx-lost", "%s: %s tx %s (%s in the model) is neither in the pool nor in a batch", desc, ch, key, m.State)
			}
		}
		for key, mb := range s.batches {
			if mb.Chain == ch && mb.State == "open" && k.GetOutgoingTxBatch(ctx, s.tok(mb.Tok).Contracts[ch], mb.Nonce) == nil {
				return failf("C05/batch-lost", "%s: batch %s open in the model but not stored", desc, key)
			}
		}
		stored := map[uint64]bool{}
		k.IterateOutgoingBridgeCalls(ctx, func(c *crosschaintypes.OutgoingBridgeCall) bool {
			stored[c.Nonce] = true
			return false
		})
		for key, mc := range s.calls {
			if mc.Chain != ch {
				continue
			}
			if mc.State == "open" && !stored[mc.Nonce] {
				return failf("C05/call-lost", "%s: bridge call %s open in the model but not stored", desc, key)
			}
			if mc.State != "open" && stored[mc.Nonce] {
				return failf("C05/call-state/"+mc.State, "%s: bridge call %s is stored but the model says %s", desc, key, mc.State)
			}
		}
		for n := range stored {
			if _, ok := s.calls[bmKey(ch, n)]; !ok {
				return failf("C05/unknown-call", "%s: %s stores bridge call %d unknown to the model", desc, ch, n)
			}
		}
	}
	return nil
}

func (s *bmState) cmpTx(ch string, tx *crosschaintypes.OutgoingTransferTx, m *bmTx, desc string) *Failure {
	t := s.tok(m.Tok)
	if tx.Sender != s.f.Users[m.Sender].Acc().String() || tx.DestAddress != m.Dest || tx.Token.Contract != t.Contracts[ch] || tx.Fee.Contract != t.Contracts[ch] ||
		!tx.Token.Amount.Equal(sdkmath.NewInt(m.Amount)) || !tx.Fee.Amount.Equal(sdkmath.NewInt(m.Fee)) {
		return failf("C05/tx-fields", "%s: %s tx %d stored as %v but its creator supplied sender=%d dest=%s token=%s amount=%d fee=%d", desc, ch, tx.Id, tx, m.Sender, m.Dest, t.Name, m.Amount, m.Fee)
	}
	return nil
}

func runBridgeMachine(c bmCase, which string, rec *ev.Recorder) *Failure {
	f := base()
	ctx, _ := f.Ctx.CacheContext()
	s := &bmState{f: f, which: which, txs: map[string]*bmTx{}, batches: map[string]*bmBatch{}, calls: map[string]*bmCall{}, extH: map[string]uint64{}, proven: map[string]uint64{},
		lastBatchExec: map[string]uint64{}, pending: map[string][]uint64{}, deposits: map[int]*big.Int{}, withdrawn: map[int]*big.Int{}, initial: map[int]*big.Int{}, labels: map[string]bool{}, observedHeight: map[string]bool{}, outstanding: map[string]int64{}, liq0: map[string]int64{}, depCh: map[string]int64{}, wdCh: map[string]int64{}, erc20Pool0: map[string]int64{}, erc20PoolLast: map[string]int64{}, everParked: map[string]int64{}, rec: rec}
	gov := sim.GovAddr.String()
	for i, ch := range baseChains {
		k := f.Keeper(ch)
		p := k.GetParams(ctx)
		p.ExternalBatchTimeout = c.BatchTimeoutMs[i]
		p.BridgeCallTimeout = c.CallTimeoutMs[i]
		p.AverageExternalBlockTime = c.ExtBlockMs[i]
		p.AverageBlockTime = c.FxBlockMs[i]
		if r := f.RunMsg(ctx, &crosschaintypes.MsgUpdateParams{ChainName: ch, Authority: gov, Params: p}); !r.OK() {
			return failf("harness", "params: %v", r.Err)
		}
		s.extH[ch] = k.GetLastObservedBlockHeight(ctx).ExternalBlockHeight
		s.proven[ch] = s.extH[ch]
		s.observedHeight[ch] = true
		if i < len(c.ResetHeight) && c.ResetHeight[i] {
			cur := ctx.KVStore(f.App.GetKey(ch)).Get(crosschaintypes.LastObservedBlockHeightKey)
			r := f.RunMsg(ctx, &fxgovtypes.MsgUpdateStore{Authority: gov, UpdateStores: []fxgovtypes.UpdateStore{{Space: ch, Key: hex.EncodeToString(crosschaintypes.LastObservedBlockHeightKey), OldValue: hex.EncodeToString(cur), Value: ""}}})
			if !r.OK() {
				return failf("harness", "reset height: %v", r.Err)
			}
			s.observedHeight[ch] = false
			s.labels["no-observed-height"] = true
		}
	}
	// configuration: every FX that circulated on the external chain at genesis has been bridged back
	// (the genesis escrow of the first chain's module has been paid out), so the escrow holds exactly
	// what this history puts there and a shortfall of a single unit is observable
	if bal := f.App.BankKeeper.GetBalance(ctx, authtypes.NewModuleAddress(baseChains[0]), fxtypes.DefaultDenom); bal.IsPositive() {
		if err := f.App.BankKeeper.SendCoinsFromModuleToAccount(ctx, baseChains[0], authtypes.NewModuleAddress("verif-sink"), sdk.NewCoins(bal)); err != nil {
			return failf("harness", "drain genesis escrow: %v", err)
		}
	}
	for ti := range f.Tokens {
		s.deposits[ti], s.withdrawn[ti] = new(big.Int), new(big.Int)
		s.initial[ti] = new(big.Int).Add(s.held(ctx, ti), s.inFlight(ctx, ti))
		for ch, denom := range s.tok(ti).Bridge {
			if s.tok(ti).Kind != sim.KindModule {
				continue
			}
			s.liq0[ch+"/"+fmt.Sprint(ti)] = f.App.BankKeeper.GetBalance(ctx, authtypes.NewModuleAddress(ch), denom).Amount.Int64()
			s.erc20Pool0[ch+"/"+fmt.Sprint(ti)] = f.App.BankKeeper.GetBalance(ctx, authtypes.NewModuleAddress(erc20types.ModuleName), denom).Amount.Int64()
		}
	}
	usersHex := func(u int) common.Address { return f.Users[u%3].Hex() }

	for si, op := range c.Ops {
		ch := baseChains[op.Chain%len(baseChains)]
		k := f.Keeper(ch)
		u := op.U % 3
		ti := op.Tok % len(f.Tokens)
		t := s.tok(ti)
		if _, bridged := t.Contracts[ch]; !bridged {
			ch = f.Chains[0] // FX is bridged on the first chain only
			k = f.Keeper(ch)
		}
		desc := fmt.Sprintf("step %d %+v", si, op)
		sctx, write := ctx.CacheContext()
		heldPre := map[[2]int]*big.Int{}
		for uu := range f.Users {
			for tt := range f.Tokens {
				heldPre[[2]int{uu, tt}] = s.heldBy(ctx, uu, tt)
			}
		}
		expect := map[[2]int]int64{}      // expected held deltas of this step
		refundForm := map[[2]int]string{} // for refunds of this step: the form the value was paid in ("coin" | "erc20" | "mixed")
		refundCoin := map[[2]int]int64{}  // the part of this step's refunds that was paid in coin form
		noteRefund := func(key [2]int, amt int64, evm bool) {
			fm := "coin"
			if evm {
				fm = "erc20"
			} else {
				refundCoin[key] += amt
			}
			if old, ok := refundForm[key]; ok && old != fm {
				fm = "mixed"
			}
			refundForm[key] = fm
		}
		coinPre := map[[2]int]*big.Int{}
		for uu := range f.Users {
			for tt := range f.Tokens {
				coinPre[[2]int{uu, tt}] = s.coinFormOf(ctx, uu, tt)
			}
		}
		lastObsHeightPre := k.GetLastObservedBlockHeight(ctx).ExternalBlockHeight
		observedThisStep := false
		acc := f.Users[u]

		noteObserved := func(chain string) { observedThisStep = true }

		switch op.Kind {
		case "send":
			amt, fee := op.Amt, op.Fee
			// later transfers offer more, so that a newer batch is at least as profitable as the last one
			for _, mb := range s.batches {
				if mb.Chain == ch && mb.Tok == ti {
					fee += 60
				}
			}
			if op.EVM && op.Fee%5 == 0 {
				// the precompile door accepts a transfer without a bridge fee (the Cosmos message does not)
				fee = 0
				s.labels["zero-fee-send"] = true
			}
			if op.Idx == 7 && !(op.EVM && t.Kind == sim.KindFX && op.Flag) {
				// a large transfer: a quarter to all of what the sender holds in the form this door takes
				bal := f.App.BankKeeper.GetBalance(sctx, acc.Acc(), t.Base).Amount.BigInt()
				if op.EVM {
					bal = f.BalanceOf(sctx, t.ERC20, acc.Hex())
				}
				big4 := new(big.Int).Div(new(big.Int).Mul(bal, big.NewInt(op.Amt%4+1)), big.NewInt(4))
				big4.Sub(big4, big.NewInt(fee))
				if big4.Sign() > 0 && big4.IsInt64() && big4.Int64() < 1<<50 {
					amt = big4.Int64()
					s.labels["large-send"] = true
				}
			}
			dest := sim.ExtAddrN(ch, "dest", op.Idx)
			var ok bool
			if op.EVM {
				tokenAddr := t.ERC20
				var value *big.Int
				if t.Kind == sim.KindFX && op.Flag {
					tokenAddr = common.Address{}
					value = big.NewInt(amt + fee)
				}
				data, err := crosschaintypes.GetABI().Pack("crossChain", tokenAddr, dest, big.NewInt(amt), big.NewInt(fee), fxtypes.MustStrToByte32(ch), "")
				if err != nil {
					return failf("harness", "pack: %v", err)
				}
				r := f.EthTx(sctx, acc, &sim.CrosschainAddr, value, data, 3_000_000)
				ok = r.Success()
			} else {
				r := f.RunMsg(sctx, &crosschaintypes.MsgSendToExternal{ChainName: ch, Sender: acc.Acc().String(), Dest: dest, Amount: sdk.NewCoin(t.Base, sdkmath.NewInt(amt)), BridgeFee: sdk.NewCoin(t.Base, sdkmath.NewInt(fee))})
				ok = r.OK()
			}
			if ok {
				// the new id is the largest id in the pool not known to the model
				var id uint64
				for _, tx := range k.GetUnbatchedTransactions(sctx) {
					if _, known := s.txs[bmKey(ch, tx.Id)]; !known && tx.Id > id {
						id = tx.Id
					}
				}
				if id == 0 {
					return failf("C05/send-without-pool-entry", "%s: send succeeded but no new pool entry exists", desc)
				}
				for key, m := range s.txs {
					if m.Chain == ch && m.ID >= id {
						return failf("C05/id-reused", "%s: new id %d is not larger than existing %s", desc, id, key)
					}
				}
				s.txs[bmKey(ch, id)] = &bmTx{ID: id, Chain: ch, Tok: ti, Sender: u, Dest: dest, Amount: amt, Fee: fee, State: "pool", EVM: op.EVM}
				s.txOrder = append(s.txOrder, bmKey(ch, id))
				expect[[2]int{u, ti}] -= amt + fee
				s.labels["send"] = true
				if op.EVM {
					s.labels["door-evm"] = true
				}
			}
		case "cancel", "incfee":
			if len(s.txOrder) == 0 {
				break
			}
			var m *bmTx
			id := uint64(9999)
			if op.Idx%8 != 7 { // 7: a non-existent id
				cands := s.txOrder
				if op.Flag { // aim at what is still queued, first at transfers that came back from a timed-out batch
					var pool, back []string
					for _, key := range s.txOrder {
						if s.txs[key].State == "pool" {
							pool = append(pool, key)
							if s.txs[key].Batch != 0 {
								back = append(back, key)
							}
						}
					}
					if len(back) > 0 && op.Idx%2 == 0 {
						cands = back
					} else if len(pool) > 0 {
						cands = pool
					}
				}
				m = s.txs[cands[op.Idx%len(cands)]]
				if op.Flag && op.Amt%4 != 0 { // mostly the owner asks
					u = m.Sender
					acc = f.Users[u]
				}
				id = m.ID
				ch = m.Chain
				k = f.Keeper(ch)
				t = s.tok(m.Tok)
				ti = m.Tok
			}
			if op.Kind == "cancel" {
				var ok bool
				if op.EVM {
					data, _ := crosschaintypes.GetABI().Pack("cancelSendToExternal", ch, new(big.Int).SetUint64(id))
					ok = f.EthTx(sctx, acc, &sim.CrosschainAddr, nil, data, 3_000_000).Success()
				} else {
					ok = f.RunMsg(sctx, &crosschaintypes.MsgCancelSendToExternal{ChainName: ch, Sender: acc.Acc().String(), TransactionId: id}).OK()
				}
				if ok {
					if m == nil || m.State != "pool" || m.Sender != u {
						return failf("C05/cancel-accepted", "%s: cancel of tx %d by user %d accepted although the model says %+v", desc, id, u, m)
					}
					m.State = "refunded"
					expect[[2]int{u, ti}] += m.Amount + m.Fee
					noteRefund([2]int{u, ti}, m.Amount+m.Fee, m.EVM)
					s.labels["cancel"] = true
					if m.Batch != 0 {
						s.labels["cancel-after-batch"] = true
					}
				} else if m != nil && m.State == "pool" && m.Sender != u {
					s.labels["cancel-by-non-owner-rejected"] = true
				}
			} else {
				add := op.Fee
				var ok bool
				if op.EVM {
					data, _ := crosschaintypes.GetABI().Pack("increaseBridgeFee", ch, new(big.Int).SetUint64(id), t.ERC20, big.NewInt(add))
					ok = f.EthTx(sctx, acc, &sim.CrosschainAddr, nil, data, 3_000_000).Success()
				} else {
					// the message takes the per-chain bridge denomination
					denom := t.Bridge[ch]
					if denom != t.Base {
						// obtain bridge-denominated coins first (ConvertDenom is value-neutral within the group)
						f.RunMsg(sctx, &erc20types.MsgConvertDenom{Sender: acc.Acc().String(), Receiver: acc.Acc().String(), Coin: sdk.NewCoin(t.Base, sdkmath.NewInt(add)), Target: ch})
					}
					ok = f.RunMsg(sctx, &crosschaintypes.MsgIncreaseBridgeFee{ChainName: ch, Sender: acc.Acc().String(), TransactionId: id, AddBridgeFee: sdk.NewCoin(denom, sdkmath.NewInt(add))}).OK()
				}
				if ok {
					if m == nil || m.State != "pool" {
						return failf("C05/incfee-accepted", "%s: fee increase of tx %d accepted although the model says %+v", desc, id, m)
					}
					m.Fee += add
					expect[[2]int{u, ti}] -= add
					s.labels["incfee"] = true
				}
			}
		case "batch":
			// one batch per fxcore block: move to the next block first
			ctx = ctx.WithBlockHeight(ctx.BlockHeight() + 1)
			sctx = sctx.WithBlockHeight(ctx.BlockHeight())
			sender := f.Oracles[ch][0].Bridger.Acc().String()
			lastBatchPre := uint64(0)
			for _, mb := range s.batches {
				if mb.Chain == ch && mb.Nonce > lastBatchPre {
					lastBatchPre = mb.Nonce
				}
			}
			r := f.RunMsg(sctx, &crosschaintypes.MsgRequestBatch{ChainName: ch, Sender: sender, Denom: t.Bridge[ch], MinimumFee: sdkmath.NewInt(op.Fee), FeeReceive: sim.ExtAddrN(ch, "feercv", 1), BaseFee: sdkmath.NewInt(op.Amt)})
			if r.OK() {
				if which == "C06" && !s.observedHeight[ch] && lastObsHeightPre == 0 {
					return failf("C06/batch-without-observed-height", "%s: a batch was created although no external height was ever observed", desc)
				}
				var nb *crosschaintypes.OutgoingTxBatch
				for _, b := range k.GetOutgoingTxBatches(sctx) {
					if _, known := s.batches[bmKey(ch, b.BatchNonce)]; !known {
						nb = b
					}
				}
				if nb == nil {
					return failf("C05/batch-request-without-batch", "%s: request batch succeeded but no new batch is stored", desc)
				}
				if nb.BatchNonce <= lastBatchPre {
					return failf("C05/batch-nonce-reused", "%s: new batch nonce %d <= earlier %d", desc, nb.BatchNonce, lastBatchPre)
				}
				mb := &bmBatch{Chain: ch, Tok: ti, Nonce: nb.BatchNonce, Timeout: nb.BatchTimeout, Block: nb.Block, State: "open"}
				for _, tx := range nb.Transactions {
					m, ok := s.txs[bmKey(ch, tx.Id)]
					if !ok || m.State != "pool" || m.Tok != ti || m.Fee < op.Amt {
						return failf("C05/batched-wrong-tx", "%s: batch %d contains tx %d which the model has as %+v (base fee %d)", desc, nb.BatchNonce, tx.Id, m, op.Amt)
					}
					m.State, m.Batch = "batch", nb.BatchNonce
					mb.TxIDs = append(mb.TxIDs, tx.Id)
				}
				for _, older := range s.batches {
					if older.Chain == ch && older.Tok == ti && older.State == "open" && older.Timeout > mb.Timeout {
						s.labels["older-batch-with-later-timeout"] = true
					}
				}
				s.batches[bmKey(ch, nb.BatchNonce)] = mb
				s.labels["batch"] = true
				if len(nb.Transactions) >= 100 {
					s.labels["full-batch"] = true
				}
			}
		case "bridgecall":
			if t.Kind == sim.KindExternal && isKnown(which+"/claim-handler-panic/keeper.Keeper.HandleOutgoingBridgeCallRefund/externally-owned") {
				rec.Exclude("bridge call with an externally-owned token (known finding: its refund panics)")
				break
			}
			amt := op.Amt
			var ok bool
			to := sim.ExtAddrN(ch, "callto", op.Idx)
			// call data and memo the creator supplies: empty / short / long, chosen independently
			callData := [][]byte{{1, 2, 3}, {}, bytes.Repeat([]byte{0xab, 0x00}, 40)}[op.Idx%3]
			callMemo := [][]byte{{}, {0xaa}, bytes.Repeat([]byte{0x00, 0xcd}, 33)}[int(op.Fee)%3]
			s.labels[fmt.Sprintf("bridgecall-data%d-memo%d", len(callData), len(callMemo))] = true
			if op.EVM {
				toHex := crosschaintypes.ExternalAddrToHexAddr(ch, to)
				data, err := crosschaintypes.GetABI().Pack("bridgeCall", ch, acc.Hex(), []common.Address{t.ERC20}, []*big.Int{big.NewInt(amt)}, toHex, callData, big.NewInt(0), callMemo)
				if err != nil {
					return failf("harness", "pack: %v", err)
				}
				ok = f.EthTx(sctx, acc, &sim.CrosschainAddr, nil, data, 3_000_000).Success()
			} else {
				ok = f.RunMsg(sctx, &crosschaintypes.MsgBridgeCall{ChainName: ch, Sender: acc.Acc().String(), Refund: acc.Acc().String(), To: to, Coins: sdk.NewCoins(sdk.NewCoin(t.Base, sdkmath.NewInt(amt))), Data: hex.EncodeToString(callData), Memo: hex.EncodeToString(callMemo), Value: sdkmath.ZeroInt()}).OK()
			}
			if ok {
				if which == "C06" && !s.observedHeight[ch] && lastObsHeightPre == 0 {
					return failf("C06/call-without-observed-height", "%s: an outgoing bridge call was created although no external height was ever observed", desc)
				}
				var nc *crosschaintypes.OutgoingBridgeCall
				k.IterateOutgoingBridgeCalls(sctx, func(c *crosschaintypes.OutgoingBridgeCall) bool {
					if _, known := s.calls[bmKey(ch, c.Nonce)]; !known {
						nc = c
					}
					return false
				})
				if nc == nil {
					return failf("C05/call-without-record", "%s: bridge call succeeded but no new record exists", desc)
				}
				for key, mc := range s.calls {
					if mc.Chain == ch && mc.Nonce >= nc.Nonce {
						return failf("C05/call-nonce-reused", "%s: new call nonce %d is not larger than %s", desc, nc.Nonce, key)
					}
				}
				if len(nc.Tokens) != 1 || nc.Tokens[0].Contract != t.Contracts[ch] || !nc.Tokens[0].Amount.Equal(sdkmath.NewInt(amt)) || nc.To != to || strings.ToLower(nc.Data) != hex.EncodeToString(callData) || strings.ToLower(nc.Memo) != hex.EncodeToString(callMemo) ||
					nc.Refund != crosschaintypes.ExternalAddrToStr(ch, acc.Hex().Bytes()) {
					return failf("C05/call-fields", "%s: stored call %+v differs from what the creator supplied (token %s amount %d to %s data %x memo %x refund %s)", desc, nc, t.Name, amt, to, callData, callMemo, acc.Hex())
				}
				s.calls[bmKey(ch, nc.Nonce)] = &bmCall{Chain: ch, Nonce: nc.Nonce, Sender: u, Tok: ti, Amt: amt, Timeout: nc.Timeout, State: "open", EVM: op.EVM}
				expect[[2]int{u, ti}] -= amt
				s.labels["bridgecall"] = true
			}
		case "deposit", "inboundcall":
			if t.Kind != sim.KindModule {
				// a token that originates on fxcore can only come back up to the amount currently out on that chain
				out := s.outstanding[ch+"/"+fmt.Sprint(ti)]
				if out <= 0 {
					break
				}
				if op.Amt > out {
					op.Amt = out
				}
				s.outstanding[ch+"/"+fmt.Sprint(ti)] -= op.Amt
			}
			var claim crosschaintypes.ExternalClaim
			if op.Kind == "deposit" {
				target := ""
				if op.Flag {
					target = fmt.Sprintf("%x", "erc20")
				} else if op.Idx%3 == 1 {
					// a deposit addressed onwards to an IBC route. This fixture has no open channel, so the hand-off cannot happen:
					// the claim either stays pending (its execution is refused as a whole) or leaves the coins with the receiver
					if _, open := f.App.IBCKeeper.ChannelKeeper.GetChannel(ctx, "transfer", "channel-0"); !open {
						target = fmt.Sprintf("%x", "px/transfer/channel-0")
						s.labels["deposit-ibc-target"] = true
					}
				}
				claim = &crosschaintypes.MsgSendToFxClaim{TokenContract: t.Contracts[ch], Amount: sdkmath.NewInt(op.Amt), Sender: sim.ExtAddrN(ch, "extuser", op.Idx), Receiver: acc.Acc().String(), TargetIbc: target}
			} else {
				claim = &crosschaintypes.MsgBridgeCallClaim{Sender: sim.ExtAddrN(ch, "extuser", op.Idx), Refund: crosschaintypes.ExternalAddrToStr(ch, acc.Hex().Bytes()),
					TokenContracts: []string{t.Contracts[ch]}, Amounts: []sdkmath.Int{sdkmath.NewInt(op.Amt)}, To: crosschaintypes.ExternalAddrToStr(ch, usersHex(op.Idx).Bytes()),
					Data: "", Value: sdkmath.ZeroInt(), Memo: "", TxOrigin: sim.ExtAddrN(ch, "extuser", op.Idx)}
			}
			n, err := s.observe(sctx, ch, claim)
			if err != nil {
				return s.observeFailure(err, desc, "deposit")
			}
			s.pending[ch] = append(s.pending[ch], n)
			s.deposits[ti].Add(s.deposits[ti], big.NewInt(op.Amt))
			s.depCh[ch+"/"+fmt.Sprint(ti)] += op.Amt
			s.observedHeight[ch] = true
			noteObserved(ch)
			s.labels["deposit"] = true
		case "exec":
			if len(s.pending[ch]) == 0 {
				break
			}
			n := s.pending[ch][op.Idx%len(s.pending[ch])]
			cl, found := k.GetPendingExecuteClaim(ctx, n)
			r := f.ExecuteClaim(sctx, f.Users[3], ch, n)
			if r.Success() && found {
				switch c := cl.(type) {
				case *crosschaintypes.MsgSendToFxClaim:
					for uu := range f.Users {
						if f.Users[uu].Acc().String() == c.Receiver {
							expect[[2]int{uu, s.tokOfContract(ch, c.TokenContract)}] += c.Amount.Int64()
						}
					}
				case *crosschaintypes.MsgBridgeCallClaim:
					to := crosschaintypes.ExternalAddrToHexAddr(ch, c.To)
					for uu := range f.Users {
						if f.Users[uu].Hex() == to {
							expect[[2]int{uu, s.tokOfContract(ch, c.TokenContracts[0])}] += c.Amounts[0].Int64()
						}
					}
				case *crosschaintypes.MsgBridgeCallResultClaim:
					mc := s.calls[bmKey(ch, c.Nonce)]
					if mc != nil {
						if mc.State != "open" {
							return failf("C05/result-executed-for-settled-call", "%s: result claim for call %d executed although the model says %s", desc, c.Nonce, mc.State)
						}
						if c.Success {
							mc.State = "executed"
						} else {
							mc.State = "refunded"
							expect[[2]int{mc.Sender, mc.Tok}] += mc.Amt
							noteRefund([2]int{mc.Sender, mc.Tok}, mc.Amt, mc.EVM)
						}
					}
				}
				s.labels["exec"] = true
			}
		case "batchexec":
			// the model contract executes an open batch: nonce above the last executed one for that token, height < timeout
			var cands []*bmBatch
			for _, mb := range s.batches {
				if mb.Chain == ch && mb.State == "open" && mb.Nonce > s.lastBatchExec[ch+"/"+fmt.Sprint(mb.Tok)] && s.extH[ch] < mb.Timeout {
					cands = append(cands, mb)
				}
			}
			if len(cands) == 0 {
				break
			}
			sort.Slice(cands, func(i, j int) bool { return cands[i].Nonce < cands[j].Nonce })
			mb := cands[op.Idx%len(cands)]
			if mb != cands[0] {
				s.labels["out-of-order-batch-exec"] = true
			}
			claim := &crosschaintypes.MsgSendToExternalClaim{BatchNonce: mb.Nonce, TokenContract: s.tok(mb.Tok).Contracts[ch]}
			if _, err := s.observe(sctx, ch, claim); err != nil {
				if oe, ok := err.(*sim.ObserveError); ok && oe.Panic != "" && !strings.Contains(oe.Panic, "OutgoingTxBatchExecuted") {
					return s.observeFailure(err, desc, "batch executed")
				}
				return failf(which+"/admissible-batch-execution-rejected", "%s: the external contract executed batch %d at height %d < timeout %d but fxcore rejects the event: %v", desc, mb.Nonce, s.extH[ch], mb.Timeout, err)
			}
			s.lastBatchExec[ch+"/"+fmt.Sprint(mb.Tok)] = mb.Nonce
			mb.State = "executed"
			for _, id := range mb.TxIDs {
				m := s.txs[bmKey(ch, id)]
				m.State = "executed"
				s.withdrawn[mb.Tok].Add(s.withdrawn[mb.Tok], big.NewInt(m.Amount+m.Fee))
				s.outstanding[ch+"/"+fmt.Sprint(mb.Tok)] += m.Amount + m.Fee
				s.wdCh[ch+"/"+fmt.Sprint(mb.Tok)] += m.Amount + m.Fee
			}
			// older open batches of that token are cancelled (their transfers return to the pool)
			for _, ob := range s.batches {
				if ob.Chain == ch && ob.Tok == mb.Tok && ob.State == "open" && ob.Nonce < mb.Nonce {
					ob.State = "cancelled"
					for _, id := range ob.TxIDs {
						s.txs[bmKey(ch, id)].State = "pool"
					}
				}
			}
			noteObserved(ch)
			s.labels["batchexec"] = true
		case "callresult":
			var cands []*bmCall
			for _, mc := range s.calls {
				if mc.Chain == ch && mc.State == "open" && mc.ResultAt == 0 && s.extH[ch] < mc.Timeout && !mc.Inbound {
					cands = append(cands, mc)
				}
			}
			if len(cands) == 0 {
				break
			}
			sort.Slice(cands, func(i, j int) bool { return cands[i].Nonce < cands[j].Nonce })
			mc := cands[op.Idx%len(cands)]
			claim := &crosschaintypes.MsgBridgeCallResultClaim{Nonce: mc.Nonce, TxOrigin: sim.ExtAddrN(ch, "relayer", 1), Success: op.Flag, Cause: ""}
			n, err := s.observe(sctx, ch, claim)
			if err != nil {
				return s.observeFailure(err, desc, "bridge call result")
			}
			mc.ResultAt, mc.ResultOK = n, op.Flag
			s.pending[ch] = append(s.pending[ch], n)
			if isKnown(which + "/refunded-after-external-execution") {
				// known finding: a result left parked until the timeout is refunded although executed; keep searching
				// behind it by executing the parked result immediately
				rec.Exclude("bridge-call result left parked (known finding: refunded at timeout although executed)")
				if r := f.ExecuteClaim(sctx, f.Users[3], ch, n); r.Success() {
					if op.Flag {
						mc.State = "executed"
					} else {
						mc.State = "refunded"
						expect[[2]int{mc.Sender, mc.Tok}] += mc.Amt
					}
				}
			}
			if op.Flag {
				// the external chain provably executed the call: the value has left
				s.withdrawn[mc.Tok].Add(s.withdrawn[mc.Tok], big.NewInt(mc.Amt))
				s.outstanding[ch+"/"+fmt.Sprint(mc.Tok)] += mc.Amt
				s.wdCh[ch+"/"+fmt.Sprint(mc.Tok)] += mc.Amt
				s.labels["call-executed-externally"] = true
			}
			noteObserved(ch)
		case "tick":
			dh := op.N
			if dh <= -10 {
				// a lagging report: the event carries a height below the external chain's own height (and below earlier events);
				// it proves nothing new about the external chain
				s.lag = uint64(-dh - 9)
				if s.lag >= s.extH[ch] {
					s.lag = s.extH[ch] - 1
				}
				s.labels["lagging-event-height"] = true
				dh = 0
			}
			if dh < 0 {
				// jump next to the smallest open timeout on this chain
				var tos []uint64
				for _, mb := range s.batches {
					if mb.Chain == ch && mb.State == "open" {
						tos = append(tos, mb.Timeout)
					}
				}
				for _, mc := range s.calls {
					if mc.Chain == ch && mc.State == "open" {
						tos = append(tos, mc.Timeout)
					}
				}
				if len(tos) == 0 {
					dh = 1
				} else {
					sort.Slice(tos, func(i, j int) bool { return tos[i] < tos[j] })
					target := int64(tos[0]) + (-dh - 2) // -1 -> timeout-1, -2 -> timeout, -3 -> timeout+1
					if target > int64(s.extH[ch]) {
						dh = target - int64(s.extH[ch])
						s.labels["boundary-height"] = true
					} else {
						dh = 0
					}
				}
			}
			s.extH[ch] += uint64(dh)
			claim := &crosschaintypes.MsgBridgeTokenClaim{TokenContract: sim.ExtAddrN(ch, "junk", 1000+si), Name: "Junk", Symbol: fmt.Sprintf("J%d", si), Decimals: 18}
			_, err := s.observe(sctx, ch, claim)
			s.lag = 0
			if err != nil {
				return s.observeFailure(err, desc, "height-only event")
			}
			s.observedHeight[ch] = true
			noteObserved(ch)
		case "fxblocks":
			ctx = ctx.WithBlockHeight(ctx.BlockHeight() + op.N)
			sctx = sctx.WithBlockHeight(ctx.BlockHeight())
		}

		// ---- releases observed in this step (pre = ctx, post = sctx): every batch / call that disappeared must be
		// explained by the operation itself or be a timeout release that the observed external height justifies.
		for _, chn := range baseChains {
			kk := f.Keeper(chn)
			post := kk.GetLastObservedBlockHeight(sctx).ExternalBlockHeight
			for _, b := range kk.GetOutgoingTxBatches(ctx) {
				if kk.GetOutgoingTxBatch(sctx, b.TokenContract, b.BatchNonce) != nil {
					continue
				}
				mb := s.batches[bmKey(chn, b.BatchNonce)]
				if mb == nil {
					return failf("harness", "%s: unknown batch %d disappeared", desc, b.BatchNonce)
				}
				if mb.State == "executed" || (mb.State == "cancelled" && op.Kind == "batchexec") {
					continue // executed by this step's event, or superseded by the newer executed batch of its token
				}
				if which == "C06" && (!observedThisStep || s.proven[chn] < b.BatchTimeout) {
					return failf("C06/batch-released-early", "%s: %s batch %d (timeout %d) was cancelled although the highest external height any observed event carried is %d (recorded as last observed: %d; event observed in this step: %v)", desc, chn, b.BatchNonce, b.BatchTimeout, s.proven[chn], post, observedThisStep)
				}
				mb.State = "cancelled"
				for _, id := range mb.TxIDs {
					s.txs[bmKey(chn, id)].State = "pool"
				}
				s.labels["batch-timeout"] = true
			}
			var gone []*crosschaintypes.OutgoingBridgeCall
			kk.IterateOutgoingBridgeCalls(ctx, func(oc *crosschaintypes.OutgoingBridgeCall) bool {
				if !kk.HasOutgoingBridgeCall(sctx, oc.Nonce) {
					gone = append(gone, oc)
				}
				return false
			})
			for _, oc := range gone {
				mc := s.calls[bmKey(chn, oc.Nonce)]
				if mc == nil {
					return failf("harness", "%s: unknown call %d disappeared", desc, oc.Nonce)
				}
				if mc.State != "open" {
					continue // settled by its own result claim in this step
				}
				if which == "C06" && (!observedThisStep || s.proven[chn] < oc.Timeout) {
					return failf("C06/call-released-early", "%s: %s bridge call %d (timeout %d) was refunded although the highest external height any observed event carried is %d (recorded as last observed: %d; event observed in this step: %v)", desc, chn, oc.Nonce, oc.Timeout, s.proven[chn], post, observedThisStep)
				}
				if mc.ResultAt != 0 && mc.ResultOK {
					s.labels["timeout-over-parked-success"] = true
					sig := which + "/refunded-after-external-execution"
					return failf(sig, "%s: %s bridge call %d was executed on the external chain (success result observed as event %d, still parked) and is now refunded for timeout at observed height %d >= %d: the same funds exist on both chains", desc, chn, oc.Nonce, mc.ResultAt, post, oc.Timeout)
				}
				mc.State = "refunded"
				if !mc.Inbound {
					expect[[2]int{mc.Sender, mc.Tok}] += mc.Amt
					noteRefund([2]int{mc.Sender, mc.Tok}, mc.Amt, mc.EVM)
				}
				s.labels["call-timeout"] = true
			}
			kk.IterateOutgoingBridgeCalls(sctx, func(oc *crosschaintypes.OutgoingBridgeCall) bool {
				if mc := s.calls[bmKey(chn, oc.Nonce)]; mc != nil && mc.ResultAt != 0 && observedThisStep && post >= oc.Timeout {
					s.labels["parked-result-outlives-timeout"] = true
				}
				return false
			})
			// refund records created by failed inbound calls
			kk.IterateOutgoingBridgeCalls(sctx, func(oc *crosschaintypes.OutgoingBridgeCall) bool {
				if _, known := s.calls[bmKey(chn, oc.Nonce)]; !known && oc.EventNonce != 0 {
					s.calls[bmKey(chn, oc.Nonce)] = &bmCall{Chain: chn, Nonce: oc.Nonce, Timeout: oc.Timeout, State: "open", Inbound: true}
					s.labels["inbound-refund-record"] = true
				}
				return false
			})
		}
		write()
		if which == "C05" {
			if fl := s.modelCompare(ctx, desc); fl != nil {
				return fl
			}
		}
		if which == "C04" || which == "C05" {
			// per-account deltas: exactly what the operation states, everyone else zero
			for uu := range f.Users {
				for tt := range f.Tokens {
					got := new(big.Int).Sub(s.heldBy(ctx, uu, tt), heldPre[[2]int{uu, tt}])
					want := big.NewInt(expect[[2]int{uu, tt}])
					if got.Cmp(want) != 0 {
						sig := "C04/account-delta/" + op.Kind
						if which == "C05" {
							sig = "C05/settlement-amount/" + op.Kind
						}
						return failf(sig, "%s: user %d token %s holdings changed by %s, the operation states %s", desc, uu, s.tok(tt).Name, got, want)
					}
					// a refund comes back in the form it was paid in: coins for a Cosmos message, ERC-20 for the precompile
					// (the wrapped native coin is left out: both of its forms are spendable as the native coin)
					if fm, ok := refundForm[[2]int{uu, tt}]; ok && which == "C05" && s.tok(tt).Kind != sim.KindFX {
						coinDelta := new(big.Int).Sub(s.coinFormOf(ctx, uu, tt), coinPre[[2]int{uu, tt}])
						wantCoin := big.NewInt(refundCoin[[2]int{uu, tt}])
						if coinDelta.Cmp(wantCoin) != 0 {
							return failf("C05/refund-form/"+op.Kind, "%s: user %d is refunded %s %s for something paid in %s form, but the coin part of its holdings changed by %s", desc, uu, want, s.tok(tt).Name, fm, coinDelta)
						}
						s.labels["refund-form-checked:"+fm] = true
					}
				}
			}
		}
		if which == "C04" {
			if fl := s.ledger(ctx, desc); fl != nil {
				return fl
			}
		}
	}
	if which == "C04" {
		if fl := s.probe(ctx); fl != nil {
			return fl
		}
	}
	// classification
	var labels []string
	for l := range s.labels {
		labels = append(labels, l)
	}
	sort.Strings(labels)
	kinds := map[string]bool{}
	for _, m := range s.txs {
		kinds[s.tok(m.Tok).Kind] = true
	}
	for _, m := range s.calls {
		kinds[s.tok(m.Tok).Kind] = true
	}
	nontrivial := false
	switch which {
	case "C04":
		nontrivial = s.labels["deposit"] && (s.labels["send"] || s.labels["bridgecall"]) && (s.labels["cancel"] || s.labels["call-timeout"] || s.labels["batch-timeout"]) && len(kinds) >= 2
	case "C05":
		nontrivial = s.labels["batch"] && (s.labels["cancel-after-batch"] || s.labels["out-of-order-batch-exec"] || s.labels["incfee"] || s.labels["batch-timeout"])
	case "C06":
		nontrivial = (s.labels["batch-timeout"] || s.labels["call-timeout"] || s.labels["parked-result-outlives-timeout"]) && (s.labels["batchexec"] || s.labels["call-executed-externally"] || s.labels["boundary-height"] || s.labels["older-batch-with-later-timeout"])
	}
	sigOps := ""
	for _, op := range c.Ops {
		sigOps += op.Kind[:2]
		if op.EVM {
			sigOps += "e"
		}
	}
	rec.Case(ev.Sig(which, sigOps, labels), nontrivial, labels...)
	rec.Label("steps", len(c.Ops))
	if nontrivial && rec.WantSample() {
		rec.Sample(c)
	}
	return nil
}

// probe asks, on a branch of the final state, for everything the bridge owes at once: every queued
// transfer is cancelled by its owner, every holder sends all they hold to an external chain, and
// everything that left a token's home chain comes back as one deposit. Each request must be honoured:
// a refusal means the bridge side does not hold what the history says it owes.
func (s *bmState) probe(ctx0 sdk.Context) *Failure {
	f := s.f
	ctx, _ := ctx0.CacheContext()
	// (A) every queued transfer is refundable
	var keys []string
	for key, m := range s.txs {
		if m.State == "pool" {
			keys = append(keys, key)
		}
	}
	sort.Strings(keys)
	for _, key := range keys {
		m := s.txs[key]
		pre := s.heldBy(ctx, m.Sender, m.Tok)
		r := f.RunMsg(ctx, &crosschaintypes.MsgCancelSendToExternal{ChainName: m.Chain, Sender: f.Users[m.Sender].Acc().String(), TransactionId: m.ID})
		if !r.OK() {
			return failf("C04/queued-transfer-not-refundable/"+s.tok(m.Tok).Kind, "final probe: the owner's cancel of queued %s transfer %s (amount %d fee %d) is refused: %v", s.tok(m.Tok).Name, key, m.Amount, m.Fee, r.Err)
		}
		if got := new(big.Int).Sub(s.heldBy(ctx, m.Sender, m.Tok), pre); got.Cmp(big.NewInt(m.Amount+m.Fee)) != 0 {
			return failf("C04/account-delta/probe-cancel", "final probe: cancel of %s refunded %s, amount+fee is %d", key, got, m.Amount+m.Fee)
		}
		s.labels["probe-cancel"] = true
	}
	// (B) holdings are withdrawable
	for ti, t := range f.Tokens {
		for u := 0; u < 3; u++ {
			var chains []string
			for _, ch := range baseChains {
				if _, ok := t.Contracts[ch]; ok {
					chains = append(chains, ch)
				}
			}
			ch := chains[(u+ti)%len(chains)]
			acc := f.Users[u]
			parkedHere := false
			amt := f.App.BankKeeper.GetBalance(ctx, acc.Acc(), t.Base).Amount.BigInt()
			if t.Kind == sim.KindModule {
				// a token that lives on several external chains can leave through one of them only up to
				// what came in through it
				liq, parked := s.chainLiquidity(ctx, ti, ch)
				if parked.Sign() > 0 {
					parkedHere = true
					if isKnown("C04/holdings-not-withdrawable/module-owned/after-bridge-call-refund") {
						// known finding: keep searching behind it by not asking for the parked part
						liq.Sub(liq, parked)
						s.rec.Exclude("withdrawal probe reduced by what bridge-call refunds parked in the erc20 module (known finding)")
					}
				}
				if liq.Cmp(amt) < 0 {
					amt = liq
					s.labels["probe-liquidity-bound"] = true
				}
			}
			if amt.Cmp(big.NewInt(2)) < 0 {
				continue
			}
			send := new(big.Int).Sub(amt, big.NewInt(1))
			r := f.RunMsg(ctx, &crosschaintypes.MsgSendToExternal{ChainName: ch, Sender: acc.Acc().String(), Dest: sim.ExtAddrN(ch, "dest", u), Amount: sdk.NewCoin(t.Base, sdkmath.NewIntFromBigInt(send)), BridgeFee: sdk.NewCoin(t.Base, sdkmath.OneInt())})
			if !r.OK() {
				key := ch + "/" + fmt.Sprint(ti)
				if parkedHere {
					_, parked := s.chainLiquidity(ctx, ti, ch)
					return failf("C04/holdings-not-withdrawable/"+t.Kind+"/after-bridge-call-refund", "final probe: user %d holds %s %s and asks to send %s (+1 fee) to %s, which the chain's contract can pay: refused: %v (refunds of outgoing bridge calls left %s of the %s bridge denomination in the erc20 module's conversion pool, where sends to the external chain do not look)", u, amt, t.Base, send, ch, r.Err, parked, ch)
				}
				return failf("C04/holdings-not-withdrawable/"+t.Kind, "final probe: user %d holds %s %s and asks to send %s (+1 fee) to %s: refused: %v (chain ledger: initial %d + deposits %d - executed withdrawals %d - unexecuted inbound %s - in flight %s; bridge side holds %s)", u, amt, t.Base, send, ch, r.Err,
					s.liq0[key], s.depCh[key], s.wdCh[key], s.pendingInboundOn(ctx, ti, ch), s.inFlightOn(ctx, ti, ch), f.App.BankKeeper.GetBalance(ctx, authtypes.NewModuleAddress(ch), t.Bridge[ch]).Amount)
			}
			s.labels["probe-withdraw"] = true
		}
	}
	// (C) what left a token's home chain can come back
	var outKeys []string
	for key, out := range s.outstanding {
		if out > 0 {
			outKeys = append(outKeys, key)
		}
	}
	sort.Strings(outKeys)
	for _, key := range outKeys {
		var ch string
		var ti int
		parts := strings.SplitN(key, "/", 2)
		ch = parts[0]
		fmt.Sscan(parts[1], &ti)
		t := s.tok(ti)
		if t.Kind == sim.KindModule {
			continue
		}
		out := s.outstanding[key]
		recv := f.Users[3]
		pre := s.heldBy(ctx, 3, ti)
		claim := &crosschaintypes.MsgSendToFxClaim{TokenContract: t.Contracts[ch], Amount: sdkmath.NewInt(out), Sender: sim.ExtAddrN(ch, "extuser", 0), Receiver: recv.Acc().String(), TargetIbc: ""}
		n, err := s.observe(ctx, ch, claim)
		if err != nil {
			return s.observeFailure(err, "final probe", "deposit")
		}
		if r := f.ExecuteClaim(ctx, recv, ch, n); !r.Success() {
			return failf("C04/returning-funds-not-released/"+t.Kind, "final probe: %d %s are out on %s (executed withdrawals minus deposits); their deposit back is observed but cannot be executed: %+v %v", out, t.Name, ch, r.Resp, r.Err)
		}
		if got := new(big.Int).Sub(s.heldBy(ctx, 3, ti), pre); got.Cmp(big.NewInt(out)) != 0 {
			return failf("C04/account-delta/probe-deposit", "final probe: deposit of %d %s credited %s", out, t.Name, got)
		}
		s.labels["probe-return"] = true
	}
	return nil
}
