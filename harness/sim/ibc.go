package sim

import (
	"bytes"
	"fmt"
	"runtime/debug"
	"time"

	sdk "github.com/cosmos/cosmos-sdk/types"
	transfertypes "github.com/cosmos/ibc-go/v8/modules/apps/transfer/types"
	clienttypes "github.com/cosmos/ibc-go/v8/modules/core/02-client/types"
	connectiontypes "github.com/cosmos/ibc-go/v8/modules/core/03-connection/types"
	channeltypes "github.com/cosmos/ibc-go/v8/modules/core/04-channel/types"
	porttypes "github.com/cosmos/ibc-go/v8/modules/core/05-port/types"
	commitmenttypes "github.com/cosmos/ibc-go/v8/modules/core/23-commitment/types"
	host "github.com/cosmos/ibc-go/v8/modules/core/24-host"
	"github.com/cosmos/ibc-go/v8/modules/core/exported"
	ibctm "github.com/cosmos/ibc-go/v8/modules/light-clients/07-tendermint"
)

// The IBC core is real on the sending side (channel, connection and a tendermint light client are
// written into the stores in their OPEN / active state, so that the transfer module's SendPacket runs
// through the real channel keeper) and emulated on the delivery side, because light-client proofs
// cannot be produced here: IBCRecv / IBCAck / IBCTimeout follow ibc-go v8.5.1's message server
// (receipt / commitment based no-op on redundant relay; the application's receive callback runs in a
// cache context that is written only for a successful acknowledgement; an error returned by the
// acknowledgement / timeout callback fails the whole message).

type IBCChannel struct {
	Port, Channel     string
	CPPort, CPChannel string
}

const ibcRelayer = "verif-ibc-relayer"

// OpenTransferChannel writes client, connection and channel-<n> (OPEN, unordered, ics20-1) and binds
// the channel capability to the transfer module.
func (c *Chain) OpenTransferChannel(ctx sdk.Context, n int) (IBCChannel, error) {
	k := c.App.IBCKeeper
	clientID := fmt.Sprintf("07-tendermint-%d", n)
	connID := fmt.Sprintf("connection-%d", n)
	ch := IBCChannel{Port: transfertypes.PortID, Channel: fmt.Sprintf("channel-%d", n), CPPort: transfertypes.PortID, CPChannel: fmt.Sprintf("channel-%d", 70+n)}
	height := clienttypes.NewHeight(1, 100)
	cs := ibctm.NewClientState(fmt.Sprintf("counterparty-%d", n), ibctm.DefaultTrustLevel, 14*24*time.Hour, 21*24*time.Hour, 10*time.Second, height, commitmenttypes.GetSDKSpecs(), []string{"upgrade", "upgradedIBCState"})
	k.ClientKeeper.SetClientState(ctx, clientID, cs)
	k.ClientKeeper.SetClientConsensusState(ctx, clientID, height, ibctm.NewConsensusState(ctx.BlockTime(), commitmenttypes.NewMerkleRoot([]byte("verif-root")), bytes.Repeat([]byte{1}, 32)))
	conn := connectiontypes.NewConnectionEnd(connectiontypes.OPEN, clientID, connectiontypes.NewCounterparty(fmt.Sprintf("07-tendermint-%d", 90+n), fmt.Sprintf("connection-%d", 90+n), commitmenttypes.NewMerklePrefix([]byte("ibc"))), connectiontypes.GetCompatibleVersions(), 0)
	k.ConnectionKeeper.SetConnection(ctx, connID, conn)
	k.ChannelKeeper.SetChannel(ctx, ch.Port, ch.Channel, channeltypes.NewChannel(channeltypes.OPEN, channeltypes.UNORDERED, channeltypes.NewCounterparty(ch.CPPort, ch.CPChannel), []string{connID}, transfertypes.Version))
	k.ChannelKeeper.SetNextSequenceSend(ctx, ch.Port, ch.Channel, 1)
	k.ChannelKeeper.SetNextSequenceRecv(ctx, ch.Port, ch.Channel, 1)
	k.ChannelKeeper.SetNextSequenceAck(ctx, ch.Port, ch.Channel, 1)
	capPath := host.ChannelCapabilityPath(ch.Port, ch.Channel)
	cp, err := c.App.ScopedIBCKeeper.NewCapability(ctx, capPath)
	if err != nil {
		return ch, fmt.Errorf("new capability: %w", err)
	}
	if err := c.App.ScopedTransferKeeper.ClaimCapability(ctx, cp, capPath); err != nil {
		return ch, fmt.Errorf("claim capability: %w", err)
	}
	return ch, nil
}

func (c *Chain) transferStack() porttypes.IBCModule {
	m, ok := c.App.IBCKeeper.Router.GetRoute(transfertypes.ModuleName)
	if !ok {
		panic("no transfer route")
	}
	return m
}

func relayerAddr() sdk.AccAddress { return CosmosKey(ibcRelayer, 0).Acc() }

// IBCRecvResult of delivering an inbound packet.
type IBCRecvResult struct {
	NoOp  bool
	Ack   exported.Acknowledgement
	Panic string
}

// IBCRecv delivers an inbound packet the way MsgRecvPacket does after proof verification.
func (c *Chain) IBCRecv(ctx sdk.Context, packet channeltypes.Packet) (out IBCRecvResult) {
	k := c.App.IBCKeeper.ChannelKeeper
	if _, found := k.GetPacketReceipt(ctx, packet.DestinationPort, packet.DestinationChannel, packet.Sequence); found {
		return IBCRecvResult{NoOp: true}
	}
	msgCtx, writeMsg := ctx.CacheContext()
	defer func() {
		if r := recover(); r != nil {
			out = IBCRecvResult{Panic: fmt.Sprintf("%v\n%s", r, debug.Stack())}
		}
	}()
	k.SetPacketReceipt(msgCtx, packet.DestinationPort, packet.DestinationChannel, packet.Sequence)
	appCtx, writeApp := msgCtx.CacheContext()
	ack := c.transferStack().OnRecvPacket(appCtx, packet, relayerAddr())
	if ack == nil || ack.Success() {
		writeApp()
	}
	if ack != nil {
		k.SetPacketAcknowledgement(msgCtx, packet.DestinationPort, packet.DestinationChannel, packet.Sequence, channeltypes.CommitAcknowledgement(ack.Acknowledgement()))
	}
	writeMsg()
	return IBCRecvResult{Ack: ack}
}

// IBCDelivery is the outcome of an acknowledgement or timeout delivery.
type IBCDelivery struct {
	NoOp  bool  // the commitment is gone: redundant relay, the application is not called
	Err   error // callback error: the whole message fails, nothing is written
	Panic string
}

func (c *Chain) deliver(ctx sdk.Context, packet channeltypes.Packet, cb func(sdk.Context) error) (out IBCDelivery) {
	k := c.App.IBCKeeper.ChannelKeeper
	if len(k.GetPacketCommitment(ctx, packet.SourcePort, packet.SourceChannel, packet.Sequence)) == 0 {
		return IBCDelivery{NoOp: true}
	}
	msgCtx, writeMsg := ctx.CacheContext()
	defer func() {
		if r := recover(); r != nil {
			out = IBCDelivery{Err: fmt.Errorf("panic: %v", r), Panic: fmt.Sprintf("%v\n%s", r, debug.Stack())}
		}
	}()
	msgCtx.KVStore(c.App.GetKey(exported.StoreKey)).Delete(host.PacketCommitmentKey(packet.SourcePort, packet.SourceChannel, packet.Sequence))
	if err := cb(msgCtx); err != nil {
		return IBCDelivery{Err: err}
	}
	writeMsg()
	return IBCDelivery{}
}

// IBCAck delivers an acknowledgement for a packet this chain sent.
func (c *Chain) IBCAck(ctx sdk.Context, packet channeltypes.Packet, ack channeltypes.Acknowledgement) IBCDelivery {
	return c.deliver(ctx, packet, func(mctx sdk.Context) error {
		return c.transferStack().OnAcknowledgementPacket(mctx, packet, ack.Acknowledgement(), relayerAddr())
	})
}

// IBCTimeout delivers a timeout for a packet this chain sent.
func (c *Chain) IBCTimeout(ctx sdk.Context, packet channeltypes.Packet) IBCDelivery {
	return c.deliver(ctx, packet, func(mctx sdk.Context) error {
		return c.transferStack().OnTimeoutPacket(mctx, packet, relayerAddr())
	})
}

// SentPacket rebuilds the packet with the given sequence from what the sender asked for and checks
// it against the commitment the real channel keeper stored.
func (c *Chain) SentPacket(ctx sdk.Context, ch IBCChannel, seq uint64, data transfertypes.FungibleTokenPacketData, timeoutTimestamp uint64) (channeltypes.Packet, error) {
	p := channeltypes.NewPacket(data.GetBytes(), seq, ch.Port, ch.Channel, ch.CPPort, ch.CPChannel, clienttypes.ZeroHeight(), timeoutTimestamp)
	want := c.App.IBCKeeper.ChannelKeeper.GetPacketCommitment(ctx, ch.Port, ch.Channel, seq)
	if len(want) == 0 {
		return p, fmt.Errorf("no commitment for %s/%d", ch.Channel, seq)
	}
	if got := channeltypes.CommitPacket(c.App.AppCodec(), p); !bytes.Equal(got, want) {
		return p, fmt.Errorf("rebuilt packet %s/%d does not match the stored commitment", ch.Channel, seq)
	}
	return p, nil
}
