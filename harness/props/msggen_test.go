package props

import (
	"encoding/hex"

	sdkmath "cosmossdk.io/math"
	sdk "github.com/cosmos/cosmos-sdk/types"
	banktypes "github.com/cosmos/cosmos-sdk/x/bank/types"
	"pgregory.net/rapid"

	fxtypes "github.com/functionx/fx-core/v8/types"
	crosschaintypes "github.com/functionx/fx-core/v8/x/crosschain/types"
	erc20types "github.com/functionx/fx-core/v8/x/erc20/types"

	"verif/harness/sim"
)

// Valid-by-construction (stateless) generators for fxcore's own user messages.

var fxMsgKinds = []string{
	"SendToExternal", "CancelSendToExternal", "IncreaseBridgeFee", "RequestBatch", "BridgeCall", "BondedOracle", "AddDelegate",
	"ReDelegate", "WithdrawReward", "UnbondedOracle", "ConfirmBatch", "OracleSetConfirm", "BridgeCallConfirm", "Claim", "Confirm",
	"ConvertCoin", "ConvertERC20", "ConvertDenom", "BankSend",
}

func genCoin(t *rapid.T, f *sim.Fixture, label string) sdk.Coin {
	denoms := []string{fxtypes.DefaultDenom, "usdt", "ext"}
	return sdk.NewCoin(rapid.SampledFrom(denoms).Draw(t, label+".denom"), sdkmath.NewInt(rapid.Int64Range(1, 1_000_000).Draw(t, label+".amt")))
}

func genValidFxMsg(t *rapid.T, f *sim.Fixture, kind string) sdk.Msg {
	chain := rapid.SampledFrom(baseChains).Draw(t, "chain")
	user := f.Users[rapid.IntRange(0, len(f.Users)-1).Draw(t, "user")]
	oi := rapid.IntRange(0, len(f.Oracles[chain])-1).Draw(t, "oracle")
	ok := f.Oracles[chain][oi]
	hexs := func(label string) string {
		return hex.EncodeToString(rapid.SliceOfN(rapid.Byte(), 0, 8).Draw(t, label))
	}
	sig := hex.EncodeToString(rapid.SliceOfN(rapid.Byte(), 65, 65).Draw(t, "sig"))
	switch kind {
	case "SendToExternal":
		c := genCoin(t, f, "amount")
		return &crosschaintypes.MsgSendToExternal{ChainName: chain, Sender: user.Acc().String(), Dest: sim.ExtAddrN(chain, "dest", 1), Amount: c,
			BridgeFee: sdk.NewCoin(c.Denom, sdkmath.NewInt(rapid.Int64Range(1, 1000).Draw(t, "fee")))}
	case "CancelSendToExternal":
		return &crosschaintypes.MsgCancelSendToExternal{ChainName: chain, Sender: user.Acc().String(), TransactionId: rapid.Uint64Range(1, 20).Draw(t, "id")}
	case "IncreaseBridgeFee":
		return &crosschaintypes.MsgIncreaseBridgeFee{ChainName: chain, Sender: user.Acc().String(), TransactionId: rapid.Uint64Range(1, 20).Draw(t, "id"), AddBridgeFee: genCoin(t, f, "fee")}
	case "RequestBatch":
		return &crosschaintypes.MsgRequestBatch{ChainName: chain, Sender: ok.Bridger.Acc().String(), Denom: "usdt", MinimumFee: sdkmath.NewInt(rapid.Int64Range(1, 100).Draw(t, "min")),
			FeeReceive: sim.ExtAddrN(chain, "feercv", 1), BaseFee: sdkmath.NewInt(rapid.Int64Range(0, 100).Draw(t, "base"))}
	case "BridgeCall":
		m := &crosschaintypes.MsgBridgeCall{ChainName: chain, Sender: user.Acc().String(), Refund: user.Acc().String(), To: sim.ExtAddrN(chain, "to", 1),
			Data: hexs("data"), Memo: hexs("memo"), Value: sdkmath.ZeroInt()}
		n := rapid.IntRange(0, 3).Draw(t, "ncoins")
		cs := sdk.NewCoins()
		for i := 0; i < n; i++ {
			cs = cs.Add(genCoin(t, f, "coin"))
		}
		m.Coins = cs
		if len(cs) == 0 && m.Data == "" {
			m.Data = "01"
		}
		return m
	case "BondedOracle":
		return &crosschaintypes.MsgBondedOracle{ChainName: chain, OracleAddress: ok.Oracle.Acc().String(), BridgerAddress: ok.Bridger.Acc().String(), ExternalAddress: ok.ExtAddr,
			ValidatorAddress: f.ValKeys[0].Val().String(), DelegateAmount: sim.FxCoin(rapid.Int64Range(1, 100000).Draw(t, "stake"))}
	case "AddDelegate":
		return &crosschaintypes.MsgAddDelegate{ChainName: chain, OracleAddress: ok.Oracle.Acc().String(), Amount: sim.FxCoin(rapid.Int64Range(1, 1000).Draw(t, "amt"))}
	case "ReDelegate":
		return &crosschaintypes.MsgReDelegate{ChainName: chain, OracleAddress: ok.Oracle.Acc().String(), ValidatorAddress: f.ValKeys[rapid.IntRange(0, len(f.ValKeys)-1).Draw(t, "val")].Val().String()}
	case "WithdrawReward":
		return &crosschaintypes.MsgWithdrawReward{ChainName: chain, OracleAddress: ok.Oracle.Acc().String()}
	case "UnbondedOracle":
		return &crosschaintypes.MsgUnbondedOracle{ChainName: chain, OracleAddress: ok.Oracle.Acc().String()}
	case "ConfirmBatch":
		return &crosschaintypes.MsgConfirmBatch{ChainName: chain, Nonce: rapid.Uint64Range(1, 9).Draw(t, "nonce"), TokenContract: f.Token("USDT").Contracts[chain], BridgerAddress: ok.Bridger.Acc().String(), ExternalAddress: ok.ExtAddr, Signature: sig}
	case "OracleSetConfirm":
		return &crosschaintypes.MsgOracleSetConfirm{ChainName: chain, Nonce: rapid.Uint64Range(1, 9).Draw(t, "nonce"), BridgerAddress: ok.Bridger.Acc().String(), ExternalAddress: ok.ExtAddr, Signature: sig}
	case "BridgeCallConfirm":
		return &crosschaintypes.MsgBridgeCallConfirm{ChainName: chain, Nonce: rapid.Uint64Range(1, 9).Draw(t, "nonce"), BridgerAddress: ok.Bridger.Acc().String(), ExternalAddress: ok.ExtAddr, Signature: sig}
	case "Claim":
		typ := rapid.SampledFrom(c03Types).Draw(t, "claimtype")
		c := c03Gen(t, typ, chain, f)
		return sim.WrapClaim(chain, ok.Bridger.Acc().String(), c)
	case "Confirm":
		inner := genValidFxMsg(t, f, rapid.SampledFrom([]string{"ConfirmBatch", "OracleSetConfirm", "BridgeCallConfirm"}).Draw(t, "ck"))
		return sim.WrapConfirm(chain, ok.Bridger.Acc().String(), inner.(crosschaintypes.Confirm))
	case "ConvertCoin":
		return &erc20types.MsgConvertCoin{Coin: genCoin(t, f, "coin"), Receiver: user.Hex().String(), Sender: user.Acc().String()}
	case "ConvertERC20":
		tk := f.Tokens[rapid.IntRange(0, len(f.Tokens)-1).Draw(t, "tk")]
		return &erc20types.MsgConvertERC20{ContractAddress: tk.ERC20.String(), Amount: sdkmath.NewInt(rapid.Int64Range(1, 1_000_000).Draw(t, "amt")), Receiver: user.Acc().String(), Sender: user.Hex().String()}
	case "ConvertDenom":
		return &erc20types.MsgConvertDenom{Sender: user.Acc().String(), Receiver: user.Acc().String(), Coin: genCoin(t, f, "coin"), Target: rapid.SampledFrom([]string{"eth", "bsc", "tron", "erc20", ""}).Draw(t, "target")}
	case "BankSend":
		return &banktypes.MsgSend{FromAddress: user.Acc().String(), ToAddress: f.Users[0].Acc().String(), Amount: sdk.NewCoins(genCoin(t, f, "coin"))}
	}
	panic("unknown kind " + kind)
}
