#!/bin/bash
# usage: tools/seed_recheck.sh [name-prefix]   re-runs the quick check of every kept seeded change (patch applied to /repo, then reverted)
# and rewrites check_result in its meta.json
export VERIF_EVIDENCE_DIR=/verif/.work/evidence-modified-tree   # keep /verif/evidence for runs on the unchanged tree
cd /verif
for D in seeded/${1}*/; do
  NAME=$(basename $D); P=${NAME%%-*}
  [ -n "$(git -C /repo status --porcelain)" ] && { echo "/repo not clean"; exit 2; }
  git -C /repo apply /verif/$D/patch.diff || { echo "$NAME: APPLY FAILED"; continue; }
  ./check $P quick > /tmp/seed_check.log 2>&1; RC=$?
  git -C /repo checkout -- .
  NV=$(grep -c '^VIOLATION' /tmp/seed_check.log)
  SIG=$(grep -o 'violated \[[^]]*\]' /tmp/seed_check.log | sort | uniq -c | sort -rn | head -3 | tr '\n' ';')
  echo "$NAME: check_exit=$RC violations=$NV sigs=$SIG"
  python3 - "$D" "$RC" "$NV" "$SIG" <<'PY'
import json,sys
d,rc,nv,sig=sys.argv[1:]
m=json.load(open(d+'/meta.json'))
note=m.get('check_result',{}).get('note')
m['check_result']={"exit":int(rc),"violation_lines":int(nv),"signatures":sig,"caught":rc=="1"}
if note: m['check_result']['note']=note
json.dump(m,open(d+'/meta.json','w'),indent=1)
PY
done
rm -rf /verif/replays/found
