// Package evmprog emits EVM byte code directly (no Solidity compiler in the sandbox) for one
// contract, the Runner: an interpreter whose call data is a script of sub-calls. Because a sub-call's
// data may itself be a script for another Runner instance, scripts are arbitrary call trees.
//
//	script  := epilogue(1) nops(1) op*
//	op      := target(20) kind(1) onFail(1) value(32) gas(32) len(2) data(len)
//	kind    : 0 CALL, 1 STATICCALL, 2 DELEGATECALL, 3 CALLCODE
//	onFail  : 0 propagate (revert the frame with the output so far), 1 catch (continue)
//	epilogue: 0 RETURN, 1 REVERT, 2 INVALID, 3 burn all gas
//	output  := ( success(1) retlen(2) ret(retlen<=1024) )*   one record per executed op
package evmprog

import (
	"encoding/binary"
	"fmt"
	"math/big"

	"github.com/ethereum/go-ethereum/common"
	"github.com/ethereum/go-ethereum/core/vm"
)

const (
	slotOUTP = 0x00
	slotRDP  = 0x20
	slotREM  = 0x40
	slotEPI  = 0x60
	slotLEN  = 0x80
	memIN    = 0x100
	memOUT   = 0x2000
	maxRet   = 1024
)

// MaxScript is the largest encoded script the Runner can take: the script is copied to memIN and must
// end below the output buffer at memOUT.
const MaxScript = memOUT - memIN - 64

type asm struct {
	code   []byte
	labels map[string]int
	fixups map[int]string
	n      int
}

func (a *asm) op(ops ...vm.OpCode) *asm {
	for _, o := range ops {
		a.code = append(a.code, byte(o))
	}
	return a
}

func (a *asm) push(v uint64) *asm {
	if v <= 0xff {
		a.code = append(a.code, byte(vm.PUSH1), byte(v))
	} else if v <= 0xffff {
		a.code = append(a.code, byte(vm.PUSH2), byte(v>>8), byte(v))
	} else {
		a.code = append(a.code, byte(vm.PUSH4), byte(v>>24), byte(v>>16), byte(v>>8), byte(v))
	}
	return a
}

func (a *asm) pushLabel(l string) *asm {
	a.code = append(a.code, byte(vm.PUSH2), 0, 0)
	a.fixups[len(a.code)-2] = l
	return a
}

func (a *asm) label(l string) *asm {
	a.labels[l] = len(a.code)
	return a.op(vm.JUMPDEST)
}

func (a *asm) jump(l string) *asm  { return a.pushLabel(l).op(vm.JUMP) }
func (a *asm) jumpi(l string) *asm { return a.pushLabel(l).op(vm.JUMPI) }

func (a *asm) mload(slot uint64) *asm  { return a.push(slot).op(vm.MLOAD) }
func (a *asm) mstore(slot uint64) *asm { return a.push(slot).op(vm.MSTORE) } // value on stack

func (a *asm) fresh(p string) string { a.n++; return fmt.Sprintf("%s_%d", p, a.n) }

func (a *asm) assemble() []byte {
	for pos, l := range a.fixups {
		t, ok := a.labels[l]
		if !ok {
			panic("undefined label " + l)
		}
		a.code[pos] = byte(t >> 8)
		a.code[pos+1] = byte(t)
	}
	return a.code
}

// cdByte pushes byte 0 of calldata[rdp+off].
func (a *asm) cdByte(off uint64) *asm {
	return a.mload(slotRDP).push(off).op(vm.ADD, vm.CALLDATALOAD).push(0).op(vm.BYTE)
}

func (a *asm) pushAddr() *asm  { return a.mload(slotRDP).op(vm.CALLDATALOAD).push(96).op(vm.SHR) }
func (a *asm) pushValue() *asm { return a.mload(slotRDP).push(22).op(vm.ADD, vm.CALLDATALOAD) }
func (a *asm) pushGas() *asm {
	use, done := a.fresh("usegas"), a.fresh("gasdone")
	a.mload(slotRDP).push(54).op(vm.ADD, vm.CALLDATALOAD).op(vm.DUP1, vm.ISZERO).jumpi(use).jump(done)
	a.label(use).op(vm.POP, vm.GAS)
	return a.label(done)
}

// RunnerCode returns the runtime byte code of the Runner.
func RunnerCode() []byte {
	a := &asm{labels: map[string]int{}, fixups: map[int]string{}}
	// init
	a.push(0).op(vm.CALLDATALOAD).push(0).op(vm.BYTE).mstore(slotEPI)
	a.push(0).op(vm.CALLDATALOAD).push(1).op(vm.BYTE).mstore(slotREM)
	a.push(2).mstore(slotRDP)
	a.push(memOUT).mstore(slotOUTP)
	a.label("loop")
	a.mload(slotREM).op(vm.ISZERO).jumpi("end")
	// len
	a.mload(slotRDP).push(86).op(vm.ADD, vm.CALLDATALOAD).push(240).op(vm.SHR).op(vm.DUP1).mstore(slotLEN)
	// calldatacopy(IN, rdp+88, len)   stack: [len]
	a.mload(slotRDP).push(88).op(vm.ADD).push(memIN).op(vm.CALLDATACOPY)
	// dispatch on kind
	a.cdByte(20)
	a.op(vm.DUP1).push(1).op(vm.EQ).jumpi("k_static")
	a.op(vm.DUP1).push(2).op(vm.EQ).jumpi("k_delegate")
	a.op(vm.DUP1).push(3).op(vm.EQ).jumpi("k_callcode")
	// CALL
	a.op(vm.POP).push(0).push(0).mload(slotLEN).push(memIN).pushValue().pushAddr().pushGas().op(vm.CALL).jump("after")
	a.label("k_static").op(vm.POP).push(0).push(0).mload(slotLEN).push(memIN).pushAddr().pushGas().op(vm.STATICCALL).jump("after")
	a.label("k_delegate").op(vm.POP).push(0).push(0).mload(slotLEN).push(memIN).pushAddr().pushGas().op(vm.DELEGATECALL).jump("after")
	a.label("k_callcode").op(vm.POP).push(0).push(0).mload(slotLEN).push(memIN).pushValue().pushAddr().pushGas().op(vm.CALLCODE).jump("after")
	a.label("after") // [s]
	a.op(vm.DUP1).mload(slotOUTP).op(vm.MSTORE8)
	// rl = min(returndatasize, maxRet)
	a.op(vm.RETURNDATASIZE, vm.DUP1).push(maxRet).op(vm.LT).jumpi("cap").jump("capdone")
	a.label("cap").op(vm.POP).push(maxRet)
	a.label("capdone") // [s, rl]
	a.op(vm.DUP1).push(8).op(vm.SHR).mload(slotOUTP).push(1).op(vm.ADD, vm.MSTORE8)
	a.op(vm.DUP1).mload(slotOUTP).push(2).op(vm.ADD, vm.MSTORE8)
	a.op(vm.DUP1).push(0).mload(slotOUTP).push(3).op(vm.ADD, vm.RETURNDATACOPY)
	a.push(3).op(vm.ADD).mload(slotOUTP).op(vm.ADD).mstore(slotOUTP) // [s]
	// if !s && onFail == 0 -> revert with output so far
	a.op(vm.ISZERO).cdByte(21).op(vm.ISZERO, vm.AND).jumpi("dorevert")
	// advance
	a.mload(slotRDP).push(88).op(vm.ADD).mload(slotLEN).op(vm.ADD).mstore(slotRDP)
	a.push(1).mload(slotREM).op(vm.SUB).mstore(slotREM)
	a.jump("loop")
	a.label("dorevert")
	a.push(memOUT).mload(slotOUTP).op(vm.SUB).push(memOUT).op(vm.REVERT)
	a.label("end")
	a.mload(slotEPI).op(vm.DUP1).push(1).op(vm.EQ).jumpi("e_revert")
	a.op(vm.DUP1).push(2).op(vm.EQ).jumpi("e_invalid")
	a.op(vm.DUP1).push(3).op(vm.EQ).jumpi("e_burn")
	a.op(vm.POP).push(memOUT).mload(slotOUTP).op(vm.SUB).push(memOUT).op(vm.RETURN)
	a.label("e_revert").op(vm.POP).jump("dorevert")
	a.label("e_invalid").op(vm.INVALID)
	a.label("e_burn").jump("e_burn")
	return a.assemble()
}

const (
	KindCall = iota
	KindStatic
	KindDelegate
	KindCallCode
)

const (
	EpiReturn = iota
	EpiRevert
	EpiInvalid
	EpiBurn
)

// Call is one op of a script. If Sub != nil the target is a Runner and Data is Sub's encoding.
type Call struct {
	Target common.Address `json:"target"`
	Kind   int            `json:"kind"`
	Catch  bool           `json:"catch"`
	Value  int64          `json:"value,omitempty"`
	Gas    uint64         `json:"gas,omitempty"`
	Data   []byte         `json:"data,omitempty"`
	Sub    *Script        `json:"sub,omitempty"`
	Note   string         `json:"note,omitempty"` // human readable description of Data
}

type Script struct {
	Epilogue int    `json:"epilogue"`
	Calls    []Call `json:"calls"`
}

func (s Script) Encode() []byte {
	out := []byte{byte(s.Epilogue), byte(len(s.Calls))}
	for _, c := range s.Calls {
		data := c.Data
		if c.Sub != nil {
			data = c.Sub.Encode()
		}
		out = append(out, c.Target.Bytes()...)
		onFail := byte(0)
		if c.Catch {
			onFail = 1
		}
		out = append(out, byte(c.Kind), onFail)
		v := make([]byte, 32)
		big.NewInt(c.Value).FillBytes(v)
		out = append(out, v...)
		g := make([]byte, 32)
		new(big.Int).SetUint64(c.Gas).FillBytes(g)
		out = append(out, g...)
		l := make([]byte, 2)
		binary.BigEndian.PutUint16(l, uint16(len(data)))
		out = append(out, l...)
		out = append(out, data...)
	}
	return out
}

// Outcome of one executed op (ops after a propagated failure are not executed and have no record).
type Outcome struct {
	Success bool      `json:"success"`
	Ret     []byte    `json:"-"`
	Sub     []Outcome `json:"sub,omitempty"` // parsed when the op targeted a Runner and output is available
}

// DecodeOutcomes parses a Runner's output (return data, or revert data) for script s.
func DecodeOutcomes(ret []byte, s Script) []Outcome {
	var out []Outcome
	for i := 0; i < len(s.Calls) && len(ret) >= 3; i++ {
		o := Outcome{Success: ret[0] == 1}
		l := int(binary.BigEndian.Uint16(ret[1:3]))
		if len(ret) < 3+l {
			break
		}
		o.Ret = ret[3 : 3+l]
		ret = ret[3+l:]
		if s.Calls[i].Sub != nil {
			o.Sub = DecodeOutcomes(o.Ret, *s.Calls[i].Sub)
		}
		out = append(out, o)
	}
	return out
}

// Project returns the script with every sub-tree removed whose effects the EVM dropped: ops that
// failed, ops that were never executed, and everything under a frame that did not return normally.
// frameKept says whether the frame running s itself returned normally.
func Project(s Script, outs []Outcome, frameKept bool) Script {
	p := Script{Epilogue: EpiReturn}
	if !frameKept {
		return p
	}
	for i, c := range s.Calls {
		if i >= len(outs) || !outs[i].Success {
			continue
		}
		nc := c
		nc.Catch = true
		// the kept call ran to completion under its gas cap; without the dropped frames around it the same call
		// can cost more (addresses and slots they warmed are cold again), so the cap is not carried over
		nc.Gas = 0
		if c.Sub != nil {
			sub := Project(*c.Sub, outs[i].Sub, true)
			nc.Sub = &sub
		}
		p.Calls = append(p.Calls, nc)
	}
	return p
}

func (s Script) String() string { return s.str("") }

func (s Script) str(ind string) string {
	epi := []string{"RETURN", "REVERT", "INVALID", "BURN-GAS"}[s.Epilogue%4]
	out := ""
	for _, c := range s.Calls {
		kind := []string{"CALL", "STATICCALL", "DELEGATECALL", "CALLCODE"}[c.Kind%4]
		mode := "propagate"
		if c.Catch {
			mode = "catch"
		}
		desc := c.Note
		if desc == "" {
			desc = fmt.Sprintf("%x", c.Data)
		}
		out += fmt.Sprintf("%s%s %s value=%d gas=%d on-failure=%s: %s\n", ind, kind, c.Target.Hex()[:10], c.Value, c.Gas, mode, desc)
		if c.Sub != nil {
			out += c.Sub.str(ind + "    ")
		}
	}
	return out + ind + "=> " + epi + "\n"
}
