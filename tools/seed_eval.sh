#!/bin/bash
# usage: tools/seed_eval.sh <PROP> <seed-name> <worktree> <outdir> <pkgdir>
# confirms the demo in the worktree (fails with patch, passes without) and runs ./check PROP quick against /repo with the patch applied.
export VERIF_EVIDENCE_DIR=/verif/.work/evidence-modified-tree   # keep /verif/evidence for runs on the unchanged tree
export GOFLAGS=-mod=mod GOPROXY=off GOSUMDB=off GOTOOLCHAIN=local
P=$1; NAME=$2; WT=$3; OUT=$4; PKG=$5
D=/verif/seeded/$NAME; mkdir -p $D
cp $OUT/patch.diff $D/patch.diff; cp $OUT/demo_test.go $D/demo_test.go; cp $OUT/meta.json $D/agent_meta.json
T=$(grep -o "func Test[A-Za-z0-9_]*" $OUT/demo_test.go | head -1 | sed 's/func //')
if [ -z "$T" ]; then # testify suite method: run it under every suite runner of the package
  T="/^$(grep -o "func ([a-zA-Z]* \*[A-Za-z]*) Test[A-Za-z0-9_]*" $OUT/demo_test.go | head -1 | grep -o "Test[A-Za-z0-9_]*$")\$"
fi
cd $WT
(go test -vet=off -count=1 -run "$T" ./$PKG > /tmp/seed_with.log 2>&1); W=$?
git apply -R $OUT/patch.diff; (go test -vet=off -count=1 -run "$T" ./$PKG > /tmp/seed_without.log 2>&1); WO=$?; git apply $OUT/patch.diff
cd /verif
git -C /repo apply $D/patch.diff || { echo "$NAME: APPLY FAILED"; exit 1; }
./check $P quick > /tmp/seed_check.log 2>&1; RC=$?
git -C /repo checkout -- .
NV=$(grep -c '^VIOLATION' /tmp/seed_check.log)
SIG=$(grep -o 'violated \[[^]]*\]' /tmp/seed_check.log | sort | uniq -c | sort -rn | head -3 | tr '\n' ';')
echo "$NAME: demo_with_patch_exit=$W demo_without_patch_exit=$WO check_exit=$RC violations=$NV sigs=$SIG"
python3 - "$P" "$NAME" "$W" "$WO" "$RC" "$NV" "$SIG" "$T" "$PKG" <<'PY'
import json,sys
p,name,w,wo,rc,nv,sig,t,pkg=sys.argv[1:]
a=json.load(open(f'/verif/seeded/{name}/agent_meta.json'))
m={"property":p,"name":name,"summary":a.get("summary"),"needs":a.get("needs"),"files":a.get("files"),
   "confirmed":{"demo_test":t,"demo_package":pkg,"demo_fails_with_patch":w!="0","demo_passes_without_patch":wo=="0","existing_tests_pass_reported_by_author":a.get("existing_tests_pass")},
   "ran":[f"go test -run {t} ./{pkg} (with / without patch in a scratch worktree)", f"git -C /repo apply patch.diff && ./check {p} quick && git -C /repo checkout -- ."],
   "check_result":{"exit":int(rc),"violation_lines":int(nv),"signatures":sig,"caught":rc=="1"}}
json.dump(m,open(f'/verif/seeded/{name}/meta.json','w'),indent=1)
PY
rm -rf /verif/replays/found
