"""Per-property run plan: which tests, how many cases/shards per tier, and the evidence rule text."""

PLAN = {}
