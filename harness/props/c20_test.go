package props

import (
	"encoding/hex"
	"fmt"
	"math/big"
	"reflect"
	"runtime/debug"
	"sort"
	"strings"
	"sync"
	"testing"

	codectypes "github.com/cosmos/cosmos-sdk/codec/types"
	sdk "github.com/cosmos/cosmos-sdk/types"
	sdkerrors "github.com/cosmos/cosmos-sdk/types/errors"
	txtypes "github.com/cosmos/cosmos-sdk/types/tx"
	"github.com/cosmos/gogoproto/proto"
	"github.com/ethereum/go-ethereum/accounts/abi"
	"github.com/ethereum/go-ethereum/common"
	"google.golang.org/protobuf/encoding/protowire"
	"pgregory.net/rapid"

	fxtypes "github.com/functionx/fx-core/v8/types"
	crosschaintypes "github.com/functionx/fx-core/v8/x/crosschain/types"
	stakingtypes "github.com/functionx/fx-core/v8/x/staking/types"

	"verif/harness/ev"
	"verif/harness/fill"
	"verif/harness/sim"
)

// ---------------------------------------------------------------------------------------------
// C20 (A) — hostile input never panics: tx bytes -> TxDecoder -> ValidateBasic / signer extraction /
// ante handler; precompile call data; target / address parsers.
// Inputs are always *bytes or strings* (what a peer can send): structured messages are filled by
// reflection, marshalled and then mutated at the protobuf wire level (fields dropped, emptied,
// duplicated), because an absent field is what produces nil big-int values after decoding.
// ---------------------------------------------------------------------------------------------

type c20Case struct {
	Kind    string `json:"kind"` // msg | txbytes | precompile | parser
	TypeURL string `json:"type_url,omitempty"`
	Data    string `json:"data_hex,omitempty"`
	To      string `json:"to,omitempty"`
	Value   int64  `json:"value,omitempty"`
	Func    string `json:"func,omitempty"`
	Arg     string `json:"arg,omitempty"`
	Note    string `json:"note,omitempty"`
}

var (
	c20Once     sync.Once
	c20MsgTypes []string
)

func c20Enumerate() {
	c20Once.Do(func() {
		f := base()
		urls := f.App.InterfaceRegistry().ListImplementations(sdk.MsgInterfaceProtoName)
		sort.Strings(urls)
		c20MsgTypes = urls
	})
}

// wire-level mutation -------------------------------------------------------------------------

type wireField struct {
	num protowire.Number
	typ protowire.Type
	raw []byte // full encoding (tag + value)
	val []byte // for BytesType: the payload
}

func parseWire(b []byte) ([]wireField, bool) {
	var out []wireField
	for len(b) > 0 {
		num, typ, n := protowire.ConsumeTag(b)
		if n < 0 {
			return nil, false
		}
		m := protowire.ConsumeFieldValue(num, typ, b[n:])
		if m < 0 {
			return nil, false
		}
		f := wireField{num: num, typ: typ, raw: b[:n+m]}
		if typ == protowire.BytesType {
			v, k := protowire.ConsumeBytes(b[n:])
			if k < 0 {
				return nil, false
			}
			f.val = v
		}
		out = append(out, f)
		b = b[n+m:]
	}
	return out, true
}

func mutateWire(t *rapid.T, b []byte, depth int, label string) []byte {
	fields, ok := parseWire(b)
	if !ok || len(fields) == 0 {
		return b
	}
	nops := rapid.IntRange(1, 2).Draw(t, label+".nops")
	for o := 0; o < nops && len(fields) > 0; o++ {
		i := rapid.IntRange(0, len(fields)-1).Draw(t, label+".idx")
		switch rapid.IntRange(0, 5).Draw(t, label+".op") {
		case 0, 1: // drop the field (absent on the wire)
			fields = append(fields[:i:i], fields[i+1:]...)
		case 2: // empty payload
			if fields[i].typ == protowire.BytesType {
				fields[i].raw = protowire.AppendBytes(protowire.AppendTag(nil, fields[i].num, protowire.BytesType), nil)
				fields[i].val = nil
			}
		case 3: // duplicate
			fields = append(fields, fields[i])
		case 4: // recurse into a nested message
			if fields[i].typ == protowire.BytesType && depth < 3 && len(fields[i].val) > 0 {
				nv := mutateWire(t, fields[i].val, depth+1, label+".n")
				fields[i].raw = protowire.AppendBytes(protowire.AppendTag(nil, fields[i].num, protowire.BytesType), nv)
				fields[i].val = nv
			}
		case 5: // replace a string/bytes payload by hostile text
			if fields[i].typ == protowire.BytesType {
				nv := []byte(rapid.SampledFrom(c20Hostile).Draw(t, label+".hostile"))
				fields[i].raw = protowire.AppendBytes(protowire.AppendTag(nil, fields[i].num, protowire.BytesType), nv)
				fields[i].val = nv
			}
		}
	}
	var out []byte
	for _, f := range fields {
		out = append(out, f.raw...)
	}
	return out
}

var c20Hostile = []string{
	"", "0", "-1", "/", "//", "ibc/", "ibc//", "ibc/0/px", "px/transfer/channel-0", "chain/gravity", "module/evm", "0x", "0x0", "0X" + strings.Repeat("f", 40),
	"18446744073709551616", "115792089237316195423570985008687907853269984665640564039457584007913129639936", strings.Repeat("9", 80),
	"T" + strings.Repeat("1", 33), "fx1", "fx1qqqqqq", strings.Repeat("a", 300), "\x00", "nil", "1e100", "0.5", "-0", "+1", " 1",
}

// generators ----------------------------------------------------------------------------------

func genC20(t *rapid.T) c20Case {
	c20Enumerate()
	f := base()
	switch k := rapid.IntRange(0, 16).Draw(t, "kind"); {
	case k >= 15:
		// bytes offered as a claim / confirmation (what MsgClaim / MsgConfirm carry as Any)
		var m proto.Message
		if rapid.Bool().Draw(t, "isclaim") {
			chain := rapid.SampledFrom(baseChains).Draw(t, "cchain")
			m = c03Gen(t, rapid.SampledFrom(c03Types).Draw(t, "ctype"), chain, f)
		} else {
			m = genValidFxMsg(t, f, rapid.SampledFrom([]string{"ConfirmBatch", "OracleSetConfirm", "BridgeCallConfirm"}).Draw(t, "ck"))
		}
		bz, _ := safeMarshal(m)
		if rapid.IntRange(0, 9).Draw(t, "mut") < 8 {
			bz = mutateWire(t, bz, 0, "wc")
		}
		return c20Case{Kind: "claim", TypeURL: "/" + proto.MessageName(m), Data: hex.EncodeToString(bz)}
	case k >= 10:
		// a stateless-valid fxcore message with one or two wire-level mutations: this is what gets
		// past the early returns of ValidateBasic and reaches the checks behind them
		m := genValidFxMsg(t, f, rapid.SampledFrom(fxMsgKinds).Draw(t, "fxkind"))
		// wrapped claims / confirmations: mutate the wrapped message itself most of the time
		if rapid.IntRange(0, 9).Draw(t, "inner") < 7 {
			switch w := m.(type) {
			case *crosschaintypes.MsgClaim:
				w.Claim = &codectypes.Any{TypeUrl: w.Claim.TypeUrl, Value: mutateWire(t, w.Claim.Value, 1, "wi")}
				bz, _ := safeMarshal(w)
				return c20Case{Kind: "msg", TypeURL: sdk.MsgTypeURL(m), Data: hex.EncodeToString(bz), Note: "valid+inner-mutation " + w.Claim.TypeUrl}
			case *crosschaintypes.MsgConfirm:
				w.Confirm = &codectypes.Any{TypeUrl: w.Confirm.TypeUrl, Value: mutateWire(t, w.Confirm.Value, 1, "wi")}
				bz, _ := safeMarshal(w)
				return c20Case{Kind: "msg", TypeURL: sdk.MsgTypeURL(m), Data: hex.EncodeToString(bz), Note: "valid+inner-mutation " + w.Confirm.TypeUrl}
			}
		}
		bz, err := safeMarshal(m)
		if err != nil {
			bz = nil
		}
		bz = mutateWire(t, bz, 0, "w")
		return c20Case{Kind: "msg", TypeURL: sdk.MsgTypeURL(m), Data: hex.EncodeToString(bz), Note: "valid+mutation"}
	case k < 5:
		url := rapid.SampledFrom(c20MsgTypes).Draw(t, "type")
		if rapid.IntRange(0, 1).Draw(t, "own") == 0 {
			var own []string
			for _, u := range c20MsgTypes {
				if strings.HasPrefix(u, "/fx.") {
					own = append(own, u)
				}
			}
			url = rapid.SampledFrom(own).Draw(t, "owntype")
		}
		proto0, _ := f.App.InterfaceRegistry().Resolve(url)
		env := fillEnv(f)
		env.Hostile = rapid.Bool().Draw(t, "hostile")
		env.AnyMsgs = append(env.AnyMsgs, &crosschaintypes.MsgBridgeCallClaim{}, &crosschaintypes.MsgOracleSetUpdatedClaim{}, &crosschaintypes.MsgConfirmBatch{}, &crosschaintypes.MsgBridgeCallConfirm{}, &crosschaintypes.MsgOracleSetConfirm{})
		m := fill.Msg(t, env, proto0, "fill")
		bz, err := safeMarshal(m)
		if err != nil {
			bz = nil
		}
		if rapid.IntRange(0, 3).Draw(t, "mutate") != 0 {
			bz = mutateWire(t, bz, 0, "w")
		}
		return c20Case{Kind: "msg", TypeURL: url, Data: hex.EncodeToString(bz)}
	case k < 6:
		return c20Case{Kind: "txbytes", Data: hex.EncodeToString(rapid.SliceOfN(rapid.Byte(), 0, 200).Draw(t, "raw"))}
	case k < 9:
		return genC20Precompile(t)
	default:
		fn := rapid.SampledFrom([]string{"ParseFxTarget", "ParseFxTargetHex", "ValidateExternalAddr", "StrToByte32", "ParseAddress"}).Draw(t, "fn")
		arg := rapid.SampledFrom(c20Hostile).Draw(t, "arg")
		if rapid.Bool().Draw(t, "free") {
			arg = rapid.StringN(0, 64, 120).Draw(t, "freearg")
		}
		if fn == "ValidateExternalAddr" {
			fn += ":" + rapid.SampledFrom(append(append([]string{}, sim.AllChains...), "nochain", "")).Draw(t, "chain")
		}
		return c20Case{Kind: "parser", Func: fn, Arg: arg}
	}
}

func genC20Precompile(t *rapid.T) c20Case {
	abis := map[string]interface {
		Pack(string, ...interface{}) ([]byte, error)
	}{}
	_ = abis
	target := rapid.SampledFrom([]string{"staking", "crosschain"}).Draw(t, "target")
	var methods []string
	var ids = map[string][]byte{}
	if target == "staking" {
		a := stakingtypes.GetABI()
		for n, m := range a.Methods {
			methods = append(methods, n)
			ids[n] = m.ID
		}
	} else {
		a := crosschaintypes.GetABI()
		for n, m := range a.Methods {
			methods = append(methods, n)
			ids[n] = m.ID
		}
	}
	sort.Strings(methods)
	name := rapid.SampledFrom(methods).Draw(t, "method")
	data := append([]byte{}, ids[name]...)
	switch rapid.IntRange(0, 6).Draw(t, "shape") {
	case 5, 6: // ABI-well-formed arguments generated from the method's input types: every array gets its own length, numbers, strings and
		// addresses come from boundary pools - decoding succeeds, the argument struct's Validate() and the handler see semantically extreme values
		var ins abi.Arguments
		if target == "staking" {
			ins = stakingtypes.GetABI().Methods[name].Inputs
		} else {
			ins = crosschaintypes.GetABI().Methods[name].Inputs
		}
		vals := make([]interface{}, 0, len(ins))
		for i, in := range ins {
			vals = append(vals, c20ABIValue(t, in.Type, fmt.Sprintf("%s.%d", in.Name, i), 0).Interface())
		}
		if enc, err := ins.Pack(vals...); err == nil {
			data = append(data, enc...)
		}
	case 0: // arbitrary tail
		data = append(data, rapid.SliceOfN(rapid.Byte(), 0, 256).Draw(t, "tail")...)
	case 1: // word-aligned words with hostile offsets / lengths
		n := rapid.IntRange(0, 12).Draw(t, "words")
		for i := 0; i < n; i++ {
			w := make([]byte, 32)
			switch rapid.IntRange(0, 5).Draw(t, "wk") {
			case 0:
			case 1:
				for j := range w {
					w[j] = 0xff
				}
			case 2:
				big.NewInt(int64(rapid.IntRange(0, 512).Draw(t, "small"))).FillBytes(w)
			case 3:
				w[24] = 0x80 // 2^63
			case 4:
				copy(w, rapid.SliceOfN(rapid.Byte(), 32, 32).Draw(t, "rw"))
			case 5:
				big.NewInt(int64(32 * rapid.IntRange(0, 12).Draw(t, "off"))).FillBytes(w)
			}
			data = append(data, w...)
		}
	case 2: // selector only / truncated selector
		data = data[:rapid.IntRange(0, 4).Draw(t, "sel")]
	case 3, 4: // a valid encoding, then truncated or with a lying length
		enc := c20ValidArgs(t, target, name)
		if enc != nil {
			data = append(append([]byte{}, ids[name]...), enc...)
			if rapid.Bool().Draw(t, "trunc") && len(data) > 4 {
				data = data[:rapid.IntRange(4, len(data)).Draw(t, "cut")]
			} else if len(data) > 36 {
				pos := 4 + 32*rapid.IntRange(0, (len(data)-4)/32-1).Draw(t, "lie")
				for j := 0; j < 32; j++ {
					data[pos+j] = byte(rapid.SampledFrom([]int{0, 0xff, 0x80, 0x01}).Draw(t, "lb"))
				}
			}
		}
	}
	to := sim.StakingAddr
	if target == "crosschain" {
		to = sim.CrosschainAddr
	}
	return c20Case{Kind: "precompile", To: to.String(), Data: hex.EncodeToString(data), Value: int64(rapid.SampledFrom([]int{0, 0, 1, 1000}).Draw(t, "value")), Note: target + "." + name}
}

var c20ABIStrings = []string{"eth", "bsc", "tron", "polygon", "", "nochain", "ETH", "eth ", "ibc/0/cosmos", "chain/gravity", "erc20", "module/evm", "gravity",
	"fxvaloper1", "0x", "0x0000000000000000000000000000000000000000", "T" + strings.Repeat("1", 33), strings.Repeat("a", 300), "\x00", "/", "ibc/", "px/transfer/channel-0"}

var c20ABINumbers = []string{"0", "1", "2", "1000", "9223372036854775807", "9223372036854775808", "18446744073709551615", "18446744073709551616",
	"57896044618658097711785492504343953926634992332820282019728792003956564819967", "57896044618658097711785492504343953926634992332820282019728792003956564819968",
	"115792089237316195423570985008687907853269984665640564039457584007913129639935"}

// c20ABIValue draws a value of the go type go-ethereum's ABI packer expects for typ.
func c20ABIValue(t *rapid.T, typ abi.Type, label string, depth int) reflect.Value {
	f := base()
	switch typ.T {
	case abi.SliceTy, abi.ArrayTy:
		n := typ.Size
		if typ.T == abi.SliceTy {
			n = rapid.SampledFrom([]int{0, 0, 1, 1, 2, 3, 5}).Draw(t, label+".len")
		}
		var v reflect.Value
		if typ.T == abi.SliceTy {
			v = reflect.MakeSlice(typ.GetType(), n, n)
		} else {
			v = reflect.New(typ.GetType()).Elem()
		}
		for i := 0; i < n; i++ {
			v.Index(i).Set(c20ABIValue(t, *typ.Elem, fmt.Sprintf("%s[%d]", label, i), depth+1))
		}
		return v
	case abi.AddressTy:
		pool := []common.Address{{}, f.Users[0].Hex(), f.Users[1].Hex(), f.Users[2].Hex(), sim.StakingAddr, sim.CrosschainAddr, f.Token("USDT").ERC20, f.Token("FX").ERC20,
			common.HexToAddress("0xffffffffffffffffffffffffffffffffffffffff")}
		return reflect.ValueOf(rapid.SampledFrom(pool).Draw(t, label))
	case abi.UintTy, abi.IntTy:
		n, _ := new(big.Int).SetString(rapid.SampledFrom(c20ABINumbers).Draw(t, label), 10)
		if typ.T == abi.IntTy && rapid.Bool().Draw(t, label+".neg") {
			n.Neg(n)
		}
		max := new(big.Int).Lsh(big.NewInt(1), uint(typ.Size))
		if typ.T == abi.IntTy {
			max.Rsh(max, 1)
		}
		if n.CmpAbs(max) >= 0 {
			n.Mod(n, max)
		}
		switch typ.GetType().Kind() {
		case reflect.Uint8, reflect.Uint16, reflect.Uint32, reflect.Uint64:
			v := reflect.New(typ.GetType()).Elem()
			v.SetUint(n.Uint64())
			return v
		case reflect.Int8, reflect.Int16, reflect.Int32, reflect.Int64:
			v := reflect.New(typ.GetType()).Elem()
			v.SetInt(n.Int64())
			return v
		}
		return reflect.ValueOf(n)
	case abi.BoolTy:
		return reflect.ValueOf(rapid.Bool().Draw(t, label))
	case abi.StringTy:
		s := rapid.SampledFrom(c20ABIStrings).Draw(t, label)
		switch rapid.IntRange(0, 5).Draw(t, label+".k") {
		case 0:
			s = f.ValKeys[0].Val().String()
		case 1:
			s = sim.ExtAddrN("eth", "rcv", 1)
		case 2:
			s = rapid.SampledFrom(c20Hostile).Draw(t, label+".h")
		}
		return reflect.ValueOf(s)
	case abi.BytesTy:
		return reflect.ValueOf(rapid.SliceOfN(rapid.Byte(), 0, rapid.SampledFrom([]int{0, 1, 4, 32, 33, 200}).Draw(t, label+".max")).Draw(t, label))
	case abi.FixedBytesTy:
		v := reflect.New(typ.GetType()).Elem()
		src := []byte(rapid.SampledFrom(c20ABIStrings).Draw(t, label))
		if rapid.IntRange(0, 3).Draw(t, label+".raw") == 0 {
			src = rapid.SliceOfN(rapid.Byte(), typ.Size, typ.Size).Draw(t, label+".bytes")
		}
		for i := 0; i < typ.Size && i < len(src); i++ {
			v.Index(i).SetUint(uint64(src[i]))
		}
		return v
	case abi.TupleTy:
		v := reflect.New(typ.GetType()).Elem()
		for i, el := range typ.TupleElems {
			v.Field(i).Set(c20ABIValue(t, *el, fmt.Sprintf("%s.%s", label, typ.TupleRawNames[i]), depth+1))
		}
		return v
	}
	return reflect.Zero(typ.GetType())
}

// c20ValidArgs packs plausible arguments for a method (best effort; nil if not covered).
func c20ValidArgs(t *rapid.T, target, name string) []byte {
	f := base()
	val := f.ValKeys[0].Val().String()
	u1 := f.Users[1].Hex()
	amt := big.NewInt(int64(rapid.IntRange(0, 1000).Draw(t, "amt")))
	var args []interface{}
	if target == "staking" {
		switch name {
		case "delegateV2", "undelegateV2":
			args = []interface{}{val, amt}
		case "redelegateV2":
			args = []interface{}{val, f.ValKeys[1].Val().String(), amt}
		case "withdraw", "slashingInfo":
			args = []interface{}{val}
		case "approveShares", "transferShares":
			args = []interface{}{val, u1, amt}
		case "transferFromShares":
			args = []interface{}{val, u1, f.Users[2].Hex(), amt}
		case "allowanceShares":
			args = []interface{}{val, u1, f.Users[2].Hex()}
		case "delegation", "delegationRewards":
			args = []interface{}{val, u1}
		case "validatorList":
			args = []interface{}{uint8(rapid.IntRange(0, 255).Draw(t, "order"))}
		}
		if args == nil {
			return nil
		}
		m := stakingtypes.GetABI().Methods[name]
		bz, err := m.Inputs.Pack(args...)
		if err != nil {
			return nil
		}
		return bz
	}
	usdt := f.Token("USDT")
	switch name {
	case "bridgeCall":
		args = []interface{}{"eth", u1, []common.Address{usdt.ERC20}, []*big.Int{amt}, u1, []byte{1, 2}, big.NewInt(0), []byte{}}
	case "crossChain":
		args = []interface{}{usdt.ERC20, sim.ExtAddrN("eth", "rcv", 1), amt, big.NewInt(1), fxtypes.MustStrToByte32("eth"), ""}
	case "cancelSendToExternal", "executeClaim":
		args = []interface{}{"eth", amt}
	case "increaseBridgeFee":
		args = []interface{}{"eth", amt, usdt.ERC20, amt}
	case "bridgeCoinAmount":
		args = []interface{}{usdt.ERC20, fxtypes.MustStrToByte32("eth")}
	case "hasOracle", "isOracleOnline":
		args = []interface{}{"eth", u1}
	}
	if args == nil {
		return nil
	}
	m := crosschaintypes.GetABI().Methods[name]
	bz, err := m.Inputs.Pack(args...)
	if err != nil {
		return nil
	}
	return bz
}

// execution -----------------------------------------------------------------------------------

func catchPanic(where string, fn func()) (f *Failure) {
	defer func() {
		if r := recover(); r != nil {
			st := string(debug.Stack())
			f = &Failure{Sig: "C20/panic/" + where + "/" + panicSite(st), Msg: fmt.Sprintf("panic in %s: %v\n%s", where, r, trimStack(st))}
		}
	}()
	fn()
	return nil
}

// panicSite extracts the first /repo frame of a stack (stable across inputs: used as signature).
func panicSite(st string) string {
	lines := strings.Split(st, "\n")
	seenPanic := false
	for i, l := range lines {
		if strings.HasPrefix(l, "panic(") {
			seenPanic = true
			continue
		}
		if seenPanic && strings.Contains(l, "/repo/") && i > 0 {
			fn := strings.TrimSpace(lines[i-1])
			if j := strings.LastIndex(fn, "("); j > 0 {
				fn = fn[:j]
			}
			if j := strings.LastIndex(fn, "/"); j >= 0 {
				fn = fn[j+1:]
			}
			return fn
		}
	}
	return "unknown"
}

func trimStack(st string) string {
	if len(st) > 2500 {
		return st[:2500] + "…"
	}
	return st
}

func runC20(c c20Case, rec *ev.Recorder) *Failure {
	c20Enumerate()
	f := base()
	switch c.Kind {
	case "msg", "txbytes":
		var txBytes []byte
		if c.Kind == "msg" {
			payload, _ := hex.DecodeString(c.Data)
			body := &txtypes.TxBody{Messages: []*codectypes.Any{{TypeUrl: c.TypeURL, Value: payload}}}
			bb, _ := proto.Marshal(body)
			ai := &txtypes.AuthInfo{Fee: &txtypes.Fee{GasLimit: 200000, Amount: sim.DefaultFee(200000)}}
			ab, _ := proto.Marshal(ai)
			raw := &txtypes.TxRaw{BodyBytes: bb, AuthInfoBytes: ab}
			txBytes, _ = proto.Marshal(raw)
		} else {
			txBytes, _ = hex.DecodeString(c.Data)
		}
		var tx sdk.Tx
		var derr error
		if fl := catchPanic("TxDecoder", func() { tx, derr = f.App.GetTxConfig().TxDecoder()(txBytes) }); fl != nil {
			return fl
		}
		if derr != nil || tx == nil {
			rec.Case("", false, "kind:"+c.Kind, "undecodable")
			return nil
		}
		// baseapp.runTx order: at least one message, every ValidateBasic passes, then the ante handler
		allValid := len(tx.GetMsgs()) > 0
		for _, m := range tx.GetMsgs() {
			m := m
			if vb, ok := m.(sdk.HasValidateBasic); ok {
				var verr error
				if fl := catchPanic("ValidateBasic/"+sdk.MsgTypeURL(m), func() { verr = vb.ValidateBasic() }); fl != nil {
					if c20ThirdParty(m, fl) {
						// a dependency's message type panicking in its own code is outside "any fxcore message"
						// (it cannot be repaired in this repository either); counted, and baseapp recovers it
						rec.Case("", false, "kind:"+c.Kind, "third-party-validatebasic-panic:"+sdk.MsgTypeURL(m))
						return nil
					}
					return fl
				}
				if verr != nil {
					allValid = false
				}
			}
			if fl := catchPanic("GetSigners/"+sdk.MsgTypeURL(m), func() { _, _, _ = f.App.AppCodec().GetMsgV1Signers(m) }); fl != nil {
				if c20ThirdParty(m, fl) {
					rec.Case("", false, "kind:"+c.Kind, "third-party-getsigners-panic:"+sdk.MsgTypeURL(m))
					return nil
				}
				return fl
			}
		}
		// ante handler in CheckTx mode on a branch (its own Recover turns panics into ErrPanic). Only
		// for txs the harness wrapped itself (complete AuthInfo) and that baseapp would hand to it.
		if c.Kind == "msg" && allValid {
			ctx, _ := f.Ctx.CacheContext()
			ctx = ctx.WithIsCheckTx(true).WithTxBytes(txBytes)
			var aerr error
			if fl := catchPanic("AnteHandler", func() { _, aerr = f.App.AnteHandler()(ctx, tx, false) }); fl != nil {
				return fl
			}
			if aerr != nil && (sdkerrors.ErrPanic.Is(aerr) || strings.Contains(aerr.Error(), "runtime error")) {
				return failf("C20/panic/AnteHandler-recovered/"+c.TypeURL, "ante handler panicked (recovered): %v", aerr)
			}
			rec.Label("ante-reached:"+c.TypeURL, 1)
		}
		rec.Case(ev.Sig(c.Kind, c.TypeURL), true, "kind:"+c.Kind, "decoded:"+c.TypeURL)
		if rec.WantSample() {
			rec.Sample(c)
		}
	case "claim":
		payload, _ := hex.DecodeString(c.Data)
		var msg proto.Message
		var uerr error
		if fl := catchPanic("UnpackAny", func() {
			var ec crosschaintypes.ExternalClaim
			a := &codectypes.Any{TypeUrl: c.TypeURL, Value: payload}
			if uerr = f.App.InterfaceRegistry().UnpackAny(a, &ec); uerr == nil {
				msg = ec
				return
			}
			var cf sdk.Msg
			if uerr = f.App.InterfaceRegistry().UnpackAny(a, &cf); uerr == nil {
				msg = cf
			}
		}); fl != nil {
			return fl
		}
		if msg == nil {
			rec.Case("", false, "kind:claim", "undecodable")
			return nil
		}
		var verr error
		if fl := catchPanic("ValidateBasic/"+c.TypeURL, func() { verr = msg.(sdk.HasValidateBasic).ValidateBasic() }); fl != nil {
			return fl
		}
		if ec, ok := msg.(crosschaintypes.ExternalClaim); ok {
			if fl := catchPanic("ClaimHash/"+c.TypeURL, func() { _ = ec.ClaimHash(); _ = ec.GetType() }); fl != nil {
				return fl
			}
			if verr == nil {
				if fl := catchPanic("GetClaimer/"+c.TypeURL, func() { _ = ec.GetClaimer() }); fl != nil {
					return fl
				}
			}
		}
		rec.Case(ev.Sig("claim", c.TypeURL, verr == nil), true, "kind:claim", "claimtype:"+c.TypeURL, fmt.Sprintf("claim-valid:%v", verr == nil))
	case "precompile":
		data, _ := hex.DecodeString(c.Data)
		to := common.HexToAddress(c.To)
		ctx, _ := f.Ctx.CacheContext()
		var val *big.Int
		if c.Value > 0 {
			val = big.NewInt(c.Value)
		}
		r := f.EthTx(ctx, f.Users[0], &to, val, data, 500_000)
		if r.Panic != "" {
			return &Failure{Sig: "C20/panic/precompile/" + c.Note + "/" + panicSite(r.Panic), Msg: fmt.Sprintf("precompile call %s data=%s panicked: %s", c.Note, c.Data, trimStack(r.Panic))}
		}
		ok := r.Success()
		rec.Case(ev.Sig(c.Kind, c.Note, len(data) > 4, ok), len(data) >= 4, "kind:precompile", "method:"+c.Note, fmt.Sprintf("call-ok:%v", ok))
		if len(data) >= 4 && rec.WantSample() {
			rec.Sample(c)
		}
	case "parser":
		fl := catchPanic("parser/"+c.Func, func() {
			switch {
			case c.Func == "ParseFxTarget":
				t := fxtypes.ParseFxTarget(c.Arg)
				_ = t.GetTarget()
				_ = t.String()
			case c.Func == "ParseFxTargetHex":
				t := fxtypes.ParseFxTarget(c.Arg, true)
				_ = t.GetTarget()
			case strings.HasPrefix(c.Func, "ValidateExternalAddr:"):
				_ = crosschaintypes.ValidateExternalAddr(strings.TrimPrefix(c.Func, "ValidateExternalAddr:"), c.Arg)
			case c.Func == "StrToByte32":
				_, _ = fxtypes.StrToByte32(c.Arg)
			case c.Func == "ParseAddress":
				_, _, _ = fxtypes.ParseAddress(c.Arg)
			}
		})
		if fl != nil {
			return fl
		}
		rec.Case(ev.Sig(c.Func, c.Arg), true, "kind:parser", "parser:"+c.Func)
	}
	return nil
}

func init() { registerReplay("C20", runC20) }

func TestC20A(t *testing.T) {
	drive(t, "C20", genC20, runC20)
}

// c20ThirdParty: the message type is not defined by fx-core and the panic has no frame in /repo.
func c20ThirdParty(m sdk.Msg, fl *Failure) bool {
	return !strings.HasPrefix(sdk.MsgTypeURL(m), "/fx.") && strings.HasSuffix(fl.Sig, "/unknown")
}
