package sim

import (
	"encoding/hex"

	sdk "github.com/cosmos/cosmos-sdk/types"

	crosschaintypes "github.com/functionx/fx-core/v8/x/crosschain/types"
	trontypes "github.com/functionx/fx-core/v8/x/tron/types"
)

// SignCheckpoint signs a checkpoint with an oracle's external key in the chain's format.
func SignCheckpoint(chain string, ok OracleKeys, checkpoint []byte) string {
	var sig []byte
	var err error
	if chain == trontypes.ModuleName {
		sig, err = trontypes.NewTronSignature(checkpoint, ok.Ext)
	} else {
		sig, err = crosschaintypes.NewEthereumSignature(checkpoint, ok.Ext)
	}
	if err != nil {
		panic(err)
	}
	return hex.EncodeToString(sig)
}

func (c *Chain) OracleSetCheckpoint(ctx sdk.Context, chain string, os *crosschaintypes.OracleSet) ([]byte, error) {
	gid := c.Keeper(chain).GetGravityID(ctx)
	if chain == trontypes.ModuleName {
		return trontypes.GetCheckpointOracleSet(os, gid)
	}
	return os.GetCheckpoint(gid)
}

func (c *Chain) BatchCheckpoint(ctx sdk.Context, chain string, b *crosschaintypes.OutgoingTxBatch) ([]byte, error) {
	gid := c.Keeper(chain).GetGravityID(ctx)
	if chain == trontypes.ModuleName {
		return trontypes.GetCheckpointConfirmBatch(b, gid)
	}
	return b.GetCheckpoint(gid)
}

func (c *Chain) BridgeCallCheckpoint(ctx sdk.Context, chain string, b *crosschaintypes.OutgoingBridgeCall) ([]byte, error) {
	gid := c.Keeper(chain).GetGravityID(ctx)
	if chain == trontypes.ModuleName {
		return trontypes.GetCheckpointBridgeCall(b, gid)
	}
	return b.GetCheckpoint(gid)
}

// OracleSetConfirmMsg builds a correctly signed confirmation (nil if the checkpoint cannot be built).
func (f *Fixture) OracleSetConfirmMsg(ctx sdk.Context, chain string, ok OracleKeys, os *crosschaintypes.OracleSet) *crosschaintypes.MsgOracleSetConfirm {
	cp, err := f.OracleSetCheckpoint(ctx, chain, os)
	if err != nil {
		return nil
	}
	return &crosschaintypes.MsgOracleSetConfirm{ChainName: chain, Nonce: os.Nonce, BridgerAddress: ok.Bridger.Acc().String(), ExternalAddress: ok.ExtAddr, Signature: SignCheckpoint(chain, ok, cp)}
}

func (f *Fixture) BatchConfirmMsg(ctx sdk.Context, chain string, ok OracleKeys, b *crosschaintypes.OutgoingTxBatch) *crosschaintypes.MsgConfirmBatch {
	cp, err := f.BatchCheckpoint(ctx, chain, b)
	if err != nil {
		return nil
	}
	return &crosschaintypes.MsgConfirmBatch{ChainName: chain, Nonce: b.BatchNonce, TokenContract: b.TokenContract, BridgerAddress: ok.Bridger.Acc().String(), ExternalAddress: ok.ExtAddr, Signature: SignCheckpoint(chain, ok, cp)}
}

func (f *Fixture) BridgeCallConfirmMsg(ctx sdk.Context, chain string, ok OracleKeys, b *crosschaintypes.OutgoingBridgeCall) *crosschaintypes.MsgBridgeCallConfirm {
	cp, err := f.BridgeCallCheckpoint(ctx, chain, b)
	if err != nil {
		return nil
	}
	return &crosschaintypes.MsgBridgeCallConfirm{ChainName: chain, Nonce: b.Nonce, BridgerAddress: ok.Bridger.Acc().String(), ExternalAddress: ok.ExtAddr, Signature: SignCheckpoint(chain, ok, cp)}
}
