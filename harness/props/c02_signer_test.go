package props

import (
	"fmt"
	"testing"
	"time"

	sdkmath "cosmossdk.io/math"
	sdk "github.com/cosmos/cosmos-sdk/types"
	"pgregory.net/rapid"

	crosschaintypes "github.com/functionx/fx-core/v8/x/crosschain/types"

	"verif/harness/ev"
	"verif/harness/sim"
)

// C02 (d), block level: a delivered transaction may record a vote (or store a confirmation) for
// oracle o only if o's registered bridger is among the transaction's signers.
type c02sCase struct {
	Wrapper       string `json:"wrapper"` // who signs and is named in the wrapper: b0 | b1 | outsider
	Inner         int    `json:"inner_oracle"`
	Kind          string `json:"kind"` // claim | confirm
	AlsoSignInner bool   `json:"also_sign_inner"`
}

func genC02S(t *rapid.T) c02sCase {
	return c02sCase{
		Wrapper:       rapid.SampledFrom([]string{"b0", "b1", "outsider"}).Draw(t, "wrapper"),
		Inner:         rapid.IntRange(0, 1).Draw(t, "inner"),
		Kind:          rapid.SampledFrom([]string{"claim", "confirm"}).Draw(t, "kind"),
		AlsoSignInner: rapid.IntRange(0, 4).Draw(t, "also") == 0,
	}
}

func runC02S(c c02sCase, rec *ev.Recorder) *Failure {
	f := sim.NewFixture(sim.FixtureOptions{Chains: []string{"eth"}, OraclesPerChain: 2, NumUsers: 2, Chain: sim.Options{NumVals: 1}})
	// two blocks so that the end blocker has created an oracle set to confirm
	for i := 0; i < 2; i++ {
		if _, err := f.NextBlock(nil, 5*time.Second); err != nil {
			return failf("harness", "block: %v", err)
		}
	}
	ch := "eth"
	k := f.Keeper(ch)
	keys := f.Oracles[ch]
	var wrapperKey sim.Key
	switch c.Wrapper {
	case "b0":
		wrapperKey = keys[0].Bridger
	case "b1":
		wrapperKey = keys[1].Bridger
	default:
		wrapperKey = f.Users[1]
	}
	inner := keys[c.Inner]
	var msg sdk.Msg
	if c.Kind == "claim" {
		claim := &crosschaintypes.MsgSendToFxClaim{TokenContract: sim.ExtAddrN(ch, "tok", 1), Amount: sdkmath.NewInt(5), Sender: sim.ExtAddrN(ch, "s", 1), Receiver: f.Users[0].Acc().String()}
		sim.SetClaimMeta(claim, ch, inner.Bridger.Acc().String(), k.GetLastObservedEventNonce(f.Ctx)+1, 77)
		msg = sim.WrapClaim(ch, wrapperKey.Acc().String(), claim)
	} else {
		os := k.GetLatestOracleSet(f.Ctx)
		if os == nil {
			return failf("harness", "no oracle set to confirm")
		}
		msg = sim.WrapConfirm(ch, wrapperKey.Acc().String(), f.OracleSetConfirmMsg(f.Ctx, ch, inner, os))
	}
	signers := []sim.Key{wrapperKey}
	innerSigned := wrapperKey.Acc().Equals(inner.Bridger.Acc())
	if c.AlsoSignInner && !innerSigned {
		// the signing context asks only for the wrapper's signer; an extra signature makes the tx invalid, so we do not add it
		innerSigned = false
	}
	cursorBefore := k.GetLastEventNonceByOracle(f.Ctx, inner.Oracle.Acc())
	osNonce := uint64(0)
	if os := k.GetLatestOracleSet(f.Ctx); os != nil {
		osNonce = os.Nonce
	}
	confirmBefore := k.GetOracleSetConfirm(f.Ctx, osNonce, inner.Oracle.Acc()) != nil
	txb, err := f.SignTx(f.Ctx, sim.TxSpec{Msgs: []sdk.Msg{msg}, Signers: signers, Gas: 2_000_000, Fee: sim.DefaultFee(2_000_000)})
	if err != nil {
		return failf("harness", "sign: %v", err)
	}
	res, err := f.NextBlock([][]byte{txb}, 5*time.Second)
	if err != nil {
		return failf("harness", "block with tx: %v", err)
	}
	code := res.TxResults[0].Code
	cursorAfter := k.GetLastEventNonceByOracle(f.Ctx, inner.Oracle.Acc())
	confirmAfter := k.GetOracleSetConfirm(f.Ctx, osNonce, inner.Oracle.Acc()) != nil
	recorded := cursorAfter != cursorBefore || (confirmAfter && !confirmBefore)
	if recorded && !innerSigned {
		return failf("C02/vote-without-bridger-signature/"+c.Kind, "a %s for oracle %d was recorded by a transaction signed only by %s (tx code %d)", c.Kind, c.Inner, c.Wrapper, code)
	}
	rec.Case(ev.Sig("signer", c.Wrapper, c.Inner, c.Kind, code == 0, recorded), !innerSigned, "signer:"+c.Kind, fmt.Sprintf("signer:tx-ok=%v,recorded=%v,inner-signed=%v", code == 0, recorded, innerSigned))
	if !innerSigned && rec.WantSample() {
		rec.Sample(c)
	}
	return nil
}

func init() { registerReplay("C02S", runC02S) }

func TestC02Signer(t *testing.T) {
	rapidDriveInto(t, "C02", "C02S", ev.Get("C02"), genC02S, runC02S)
}
