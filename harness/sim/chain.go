// Package sim is a deterministic chain simulator on the real fxcore application.
// Every key, time and id is derived from fixed strings; nothing reads the wall clock or an
// RNG, so a run is a pure function of the code under test and the generated inputs.
package sim

import (
	"crypto/sha256"
	"encoding/json"
	"fmt"
	"runtime/debug"
	"sort"
	"sync"
	"time"

	"cosmossdk.io/log"
	sdkmath "cosmossdk.io/math"
	storetypes "cosmossdk.io/store/types"
	abci "github.com/cometbft/cometbft/abci/types"
	tmproto "github.com/cometbft/cometbft/proto/tendermint/types"
	dbm "github.com/cosmos/cosmos-db"
	"github.com/cosmos/cosmos-sdk/baseapp"
	codectypes "github.com/cosmos/cosmos-sdk/codec/types"
	"github.com/cosmos/cosmos-sdk/crypto/keys/ed25519"
	"github.com/cosmos/cosmos-sdk/crypto/keys/secp256k1"
	cryptotypes "github.com/cosmos/cosmos-sdk/crypto/types"
	servertypes "github.com/cosmos/cosmos-sdk/server/types"
	sdk "github.com/cosmos/cosmos-sdk/types"
	authtypes "github.com/cosmos/cosmos-sdk/x/auth/types"
	banktypes "github.com/cosmos/cosmos-sdk/x/bank/types"
	minttypes "github.com/cosmos/cosmos-sdk/x/mint/types"
	slashingtypes "github.com/cosmos/cosmos-sdk/x/slashing/types"
	stakingtypes "github.com/cosmos/cosmos-sdk/x/staking/types"
	"github.com/ethereum/go-ethereum/common"
	"github.com/evmos/ethermint/crypto/ethsecp256k1"
	"github.com/spf13/viper"

	"github.com/functionx/fx-core/v8/app"
	fxtypes "github.com/functionx/fx-core/v8/types"
)

const ChainID = fxtypes.MainnetChainId

var GenesisTime = time.Date(2024, 1, 1, 0, 0, 0, 0, time.UTC)

var cfgOnce sync.Once

// Init sets the bech32 prefixes ("fx") once per process.
func Init() {
	cfgOnce.Do(func() { fxtypes.SetConfig(true) })
}

func seedBytes(role string, i int) []byte {
	h := sha256.Sum256([]byte(fmt.Sprintf("verif/%s/%d", role, i)))
	return h[:]
}

// Key is a deterministic account key.
type Key struct {
	Priv cryptotypes.PrivKey
}

func (k Key) Acc() sdk.AccAddress     { return sdk.AccAddress(k.Priv.PubKey().Address()) }
func (k Key) Hex() common.Address     { return common.BytesToAddress(k.Priv.PubKey().Address()) }
func (k Key) Val() sdk.ValAddress     { return sdk.ValAddress(k.Priv.PubKey().Address()) }
func (k Key) Pub() cryptotypes.PubKey { return k.Priv.PubKey() }

// EthKey derives an eth_secp256k1 key for (role, i).
func EthKey(role string, i int) Key {
	return Key{Priv: &ethsecp256k1.PrivKey{Key: seedBytes(role, i)}}
}

// CosmosKey derives a secp256k1 key for (role, i).
func CosmosKey(role string, i int) Key {
	return Key{Priv: secp256k1.GenPrivKeyFromSecret(seedBytes(role, i))}
}

func ConsKey(i int) *ed25519.PrivKey {
	return ed25519.GenPrivKeyFromSecret(seedBytes("cons", i))
}

type Options struct {
	NumVals int
	// Extra genesis balances of the staking coin (in whole FX, 18 decimals) per address.
	Funded []sdk.AccAddress
	// AppOpts are handed to app.New (viper keys), e.g. the bypass-min-fee settings.
	AppOpts map[string]interface{}
	// MinGasPrices sets baseapp's node-local minimum gas prices.
	MinGasPrices string
	// ValPower: per-validator self bond in whole FX (default 100 each).
	ValBond []int64
}

type Chain struct {
	App     *app.App
	Ctx     sdk.Context // context of the block currently being built (message level)
	ValKeys []Key       // operator keys
	Cons    []*ed25519.PrivKey
	Height  int64
	Time    time.Time
	Absent  map[int]bool // validators (by index) that do not sign the next blocks
	Tap     func(sdk.Msg, Result) // when set, sees every message RunMsg executed and its outcome (votes cast inside Observe too)
}

func Fx(n int64) sdkmath.Int { return sdkmath.NewInt(n).MulRaw(1e18) }

func FxCoin(n int64) sdk.Coin { return sdk.NewCoin(fxtypes.DefaultDenom, Fx(n)) }

type appOpts struct{ v *viper.Viper }

func (a appOpts) Get(k string) interface{} { return a.v.Get(k) }

var _ servertypes.AppOptions = appOpts{}

// New builds a fresh chain: InitChain + first block committed; Ctx is ready for message level.
func New(o Options) *Chain {
	Init()
	if o.NumVals <= 0 {
		o.NumVals = 3
	}
	v := viper.New()
	for k, val := range o.AppOpts {
		v.Set(k, val)
	}
	var bopts []func(*baseapp.BaseApp)
	bopts = append(bopts, baseapp.SetChainID(ChainID))
	if o.MinGasPrices != "" {
		bopts = append(bopts, baseapp.SetMinGasPrices(o.MinGasPrices))
	}
	a := app.New(log.NewNopLogger(), dbm.NewMemDB(), nil, true, map[int64]bool{}, "/nonexistent-verif-home", appOpts{v}, bopts...)
	c := &Chain{App: a, Absent: map[int]bool{}}

	cdc := a.AppCodec()
	genesis := app.NewDefAppGenesisByDenom(cdc, a.ModuleBasics)

	var genAccs authtypes.GenesisAccounts
	var balances []banktypes.Balance
	var validators []stakingtypes.Validator
	var delegations []stakingtypes.Delegation
	bondedTotal := sdkmath.ZeroInt()
	for i := 0; i < o.NumVals; i++ {
		k := CosmosKey("val", i)
		c.ValKeys = append(c.ValKeys, k)
		ck := ConsKey(i)
		c.Cons = append(c.Cons, ck)
		genAccs = append(genAccs, authtypes.NewBaseAccount(k.Acc(), k.Pub(), 0, 0))
		balances = append(balances, banktypes.Balance{Address: k.Acc().String(), Coins: sdk.NewCoins(FxCoin(10_000))})
		pkAny, err := codectypes.NewAnyWithValue(ck.PubKey())
		if err != nil {
			panic(err)
		}
		bond := Fx(100)
		if i < len(o.ValBond) {
			bond = Fx(o.ValBond[i])
		}
		bondedTotal = bondedTotal.Add(bond)
		val := stakingtypes.Validator{
			OperatorAddress:   k.Val().String(),
			ConsensusPubkey:   pkAny,
			Status:            stakingtypes.Bonded,
			Tokens:            bond,
			DelegatorShares:   sdkmath.LegacyNewDecFromInt(bond),
			UnbondingTime:     time.Unix(0, 0).UTC(),
			Commission:        stakingtypes.NewCommission(sdkmath.LegacyNewDecWithPrec(1, 1), sdkmath.LegacyOneDec(), sdkmath.LegacyOneDec()),
			MinSelfDelegation: sdkmath.OneInt(),
		}
		validators = append(validators, val)
		delegations = append(delegations, stakingtypes.NewDelegation(k.Acc().String(), k.Val().String(), sdkmath.LegacyNewDecFromInt(bond)))
	}
	for _, addr := range o.Funded {
		genAccs = append(genAccs, authtypes.NewBaseAccount(addr, nil, 0, 0))
		balances = append(balances, banktypes.Balance{Address: addr.String(), Coins: sdk.NewCoins(FxCoin(1_000_000))})
	}

	var authGenesis authtypes.GenesisState
	cdc.MustUnmarshalJSON(genesis[authtypes.ModuleName], &authGenesis)
	packed, err := authtypes.PackAccounts(genAccs)
	if err != nil {
		panic(err)
	}
	authGenesis.Accounts = packed
	genesis[authtypes.ModuleName] = cdc.MustMarshalJSON(&authGenesis)

	var stakingGenesis stakingtypes.GenesisState
	cdc.MustUnmarshalJSON(genesis[stakingtypes.ModuleName], &stakingGenesis)
	stakingGenesis.Validators = validators
	stakingGenesis.Delegations = delegations
	genesis[stakingtypes.ModuleName] = cdc.MustMarshalJSON(&stakingGenesis)

	var slashingGenesis slashingtypes.GenesisState
	cdc.MustUnmarshalJSON(genesis[slashingtypes.ModuleName], &slashingGenesis)
	for _, ck := range c.Cons {
		cons := sdk.ConsAddress(ck.PubKey().Address())
		slashingGenesis.SigningInfos = append(slashingGenesis.SigningInfos, slashingtypes.SigningInfo{
			Address:              cons.String(),
			ValidatorSigningInfo: slashingtypes.NewValidatorSigningInfo(cons, 0, 0, time.Unix(0, 0).UTC(), false, 0),
		})
	}
	genesis[slashingtypes.ModuleName] = cdc.MustMarshalJSON(&slashingGenesis)

	var bankGenesis banktypes.GenesisState
	cdc.MustUnmarshalJSON(genesis[banktypes.ModuleName], &bankGenesis)
	for _, b := range balances {
		bankGenesis.Supply = bankGenesis.Supply.Add(b.Coins...)
	}
	bankGenesis.Supply = bankGenesis.Supply.Add(sdk.NewCoin(fxtypes.DefaultDenom, bondedTotal))
	// the default genesis supply exceeds the eth module's balance by 4000 FX (handed to a faucet)
	bankGenesis.Balances = append(bankGenesis.Balances, banktypes.Balance{
		Address: CosmosKey("faucet", 0).Acc().String(),
		Coins:   sdk.NewCoins(FxCoin(4_000)),
	})
	bankGenesis.Balances = append(bankGenesis.Balances, balances...)
	bankGenesis.Balances = append(bankGenesis.Balances, banktypes.Balance{
		Address: authtypes.NewModuleAddress(stakingtypes.BondedPoolName).String(),
		Coins:   sdk.NewCoins(sdk.NewCoin(fxtypes.DefaultDenom, bondedTotal)),
	})
	genesis[banktypes.ModuleName] = cdc.MustMarshalJSON(&bankGenesis)

	stateBytes, err := json.Marshal(genesis)
	if err != nil {
		panic(err)
	}
	cp := app.CustomGenesisConsensusParams().ToProto()
	if _, err = a.InitChain(&abci.RequestInitChain{
		ChainId:         ChainID,
		Time:            GenesisTime,
		ConsensusParams: &cp,
		AppStateBytes:   stateBytes,
		InitialHeight:   1,
	}); err != nil {
		panic(err)
	}
	c.Height = 0
	c.Time = GenesisTime
	if _, err := c.NextBlock(nil, 5*time.Second); err != nil {
		panic(err)
	}
	return c
}

func (c *Chain) proposer() []byte {
	return c.Cons[0].PubKey().Address()
}

func (c *Chain) commitInfo() abci.CommitInfo {
	ci := abci.CommitInfo{Round: 0}
	for i, ck := range c.Cons {
		flag := tmproto.BlockIDFlagCommit
		if c.Absent[i] {
			flag = tmproto.BlockIDFlagAbsent
		}
		power := int64(100)
		if val, err := c.App.StakingKeeper.GetValidatorByConsAddr(c.Ctx, sdk.ConsAddress(ck.PubKey().Address())); err == nil {
			power = val.ConsensusPower(sdk.DefaultPowerReduction)
		}
		ci.Votes = append(ci.Votes, abci.VoteInfo{
			Validator:   abci.Validator{Address: ck.PubKey().Address(), Power: power},
			BlockIdFlag: flag,
		})
	}
	return ci
}

// NextBlock runs a real FinalizeBlock + Commit with the given txs (plus everything written to
// c.Ctx at message level since the last block), then prepares the next message-level context.
func (c *Chain) NextBlock(txs [][]byte, dt time.Duration) (res *abci.ResponseFinalizeBlock, err error) {
	defer func() {
		if r := recover(); r != nil {
			err = fmt.Errorf("PANIC in block %d: %v\n%s", c.Height+1, r, debug.Stack())
		}
	}()
	h := c.Height + 1
	t := c.Time.Add(dt)
	var ci abci.CommitInfo
	if h > 1 {
		ci = c.commitInfo()
	}
	res, err = c.App.FinalizeBlock(&abci.RequestFinalizeBlock{
		Height:            h,
		Time:              t,
		Txs:               txs,
		ProposerAddress:   c.proposer(),
		DecidedLastCommit: ci,
	})
	if err != nil {
		return nil, fmt.Errorf("FinalizeBlock(%d): %w", h, err)
	}
	if _, err = c.App.Commit(); err != nil {
		return nil, fmt.Errorf("Commit(%d): %w", h, err)
	}
	c.Height = h
	c.Time = t
	c.prepare(5 * time.Second)
	return res, nil
}

// prepare sets up finalize-block state for the next height so that message-level writes on
// c.Ctx become part of the next block (the way testutil/helpers does it).
func (c *Chain) prepare(dt time.Duration) {
	if _, err := c.App.ProcessProposal(&abci.RequestProcessProposal{
		Height:             c.Height + 1,
		Time:               c.Time.Add(dt),
		ProposerAddress:    c.proposer(),
		ProposedLastCommit: abci.CommitInfo{},
	}); err != nil {
		panic(err)
	}
	c.Ctx = c.App.GetContextForFinalizeBlock(nil).
		WithProposer(c.proposer()).
		WithBlockGasMeter(storetypes.NewInfiniteGasMeter()).
		WithGasMeter(storetypes.NewInfiniteGasMeter())
}

// Mint gives coins to an address at message level (mint module).
func (c *Chain) Mint(ctx sdk.Context, addr sdk.AccAddress, coins ...sdk.Coin) {
	cs := sdk.NewCoins(coins...)
	if err := c.App.BankKeeper.MintCoins(ctx, minttypes.ModuleName, cs); err != nil {
		panic(err)
	}
	if err := c.App.BankKeeper.SendCoinsFromModuleToAccount(ctx, minttypes.ModuleName, addr, cs); err != nil {
		panic(err)
	}
}

// Result of a message-level operation.
type Result struct {
	Err    error
	Panic  string // non-empty if the handler panicked (recorded, treated as failure)
	Events sdk.Events
	Resp   *sdk.Result
}

func (r Result) OK() bool { return r.Err == nil && r.Panic == "" }

// RunMsg executes one sdk.Msg through the app's message router on a branch of ctx the way
// baseapp.runMsgs does: cache context, written only on success; panics recovered and recorded.
func (c *Chain) RunMsg(ctx sdk.Context, msg sdk.Msg) (out Result) {
	cctx, write := ctx.CacheContext()
	cctx = cctx.WithEventManager(sdk.NewEventManager())
	defer func() {
		if c.Tap != nil {
			c.Tap(msg, out)
		}
	}()
	defer func() {
		if r := recover(); r != nil {
			out = Result{Err: fmt.Errorf("panic: %v", r), Panic: fmt.Sprintf("%v\n%s", r, debug.Stack())}
		}
	}()
	if m, ok := msg.(sdk.HasValidateBasic); ok {
		if err := m.ValidateBasic(); err != nil {
			return Result{Err: err}
		}
	}
	h := c.App.MsgServiceRouter().Handler(msg)
	if h == nil {
		return Result{Err: fmt.Errorf("no handler for %s", sdk.MsgTypeURL(msg))}
	}
	res, err := h(cctx, msg)
	if err != nil {
		return Result{Err: err}
	}
	write()
	return Result{Resp: res, Events: cctx.EventManager().Events()}
}

// RunMsgRaw runs the handler directly on ctx with no cache wrapper (so a caller can inspect what
// a failing handler wrote to its own context).
func (c *Chain) RunMsgRaw(ctx sdk.Context, msg sdk.Msg) (out Result) {
	defer func() {
		if r := recover(); r != nil {
			out = Result{Err: fmt.Errorf("panic: %v", r), Panic: fmt.Sprintf("%v\n%s", r, debug.Stack())}
		}
	}()
	h := c.App.MsgServiceRouter().Handler(msg)
	if h == nil {
		return Result{Err: fmt.Errorf("no handler for %s", sdk.MsgTypeURL(msg))}
	}
	res, err := h(ctx, msg)
	if err != nil {
		return Result{Err: err}
	}
	return Result{Resp: res}
}

// EndBlock runs the app's real end blocker on ctx (message level), recovering panics.
func (c *Chain) EndBlock(ctx sdk.Context) (err error) {
	defer func() {
		if r := recover(); r != nil {
			err = fmt.Errorf("PANIC in EndBlocker: %v\n%s", r, debug.Stack())
		}
	}()
	_, err = c.App.EndBlocker(ctx)
	return err
}

// BeginBlock runs the app's real begin blocker on ctx.
func (c *Chain) BeginBlock(ctx sdk.Context) (err error) {
	defer func() {
		if r := recover(); r != nil {
			err = fmt.Errorf("PANIC in BeginBlocker: %v\n%s", r, debug.Stack())
		}
	}()
	_, err = c.App.BeginBlocker(ctx)
	return err
}

// Dump is the content of all mounted KV stores.
type Dump map[string]map[string]string

// DumpStores iterates every mounted KV store of the app under ctx.
func (c *Chain) DumpStores(ctx sdk.Context) Dump {
	d := Dump{}
	keys := c.App.GetKVStoreKey()
	for name, k := range keys {
		m := map[string]string{}
		it := ctx.KVStore(k).Iterator(nil, nil)
		for ; it.Valid(); it.Next() {
			m[string(it.Key())] = string(it.Value())
		}
		it.Close()
		d[name] = m
	}
	return d
}

type DiffEntry struct {
	Store string
	Key   []byte
	A, B  []byte // nil = absent
}

func (e DiffEntry) String() string {
	return fmt.Sprintf("%s/%x: %x -> %x", e.Store, e.Key, e.A, e.B)
}

// Diff lists keys whose value differs between a and b, sorted.
func Diff(a, b Dump) []DiffEntry {
	var out []DiffEntry
	stores := map[string]bool{}
	for s := range a {
		stores[s] = true
	}
	for s := range b {
		stores[s] = true
	}
	names := make([]string, 0, len(stores))
	for s := range stores {
		names = append(names, s)
	}
	sort.Strings(names)
	for _, s := range names {
		ma, mb := a[s], b[s]
		ks := map[string]bool{}
		for k := range ma {
			ks[k] = true
		}
		for k := range mb {
			ks[k] = true
		}
		keys := make([]string, 0, len(ks))
		for k := range ks {
			keys = append(keys, k)
		}
		sort.Strings(keys)
		for _, k := range keys {
			va, oka := ma[k]
			vb, okb := mb[k]
			if oka && okb && va == vb {
				continue
			}
			e := DiffEntry{Store: s, Key: []byte(k)}
			if oka {
				e.A = []byte(va)
				if e.A == nil {
					e.A = []byte{}
				}
			}
			if okb {
				e.B = []byte(vb)
				if e.B == nil {
					e.B = []byte{}
				}
			}
			out = append(out, e)
		}
	}
	return out
}

func DiffString(d []DiffEntry, max int) string {
	s := ""
	for i, e := range d {
		if i >= max {
			s += fmt.Sprintf("… %d more\n", len(d)-max)
			break
		}
		s += e.String() + "\n"
	}
	return s
}
