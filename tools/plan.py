"""Per-property run plan: which tests, how many cases/shards per tier, and the evidence rule text."""

PLAN = {
    "C16": dict(
        level="exploration",
        rule=("cases = (message type enumerated from the app's interface registry that carries an authority and has a router handler, "
              "payload from a valid-by-construction template built on the live state or from reflection fill, non-governance authority of one of "
              "15 shapes, among them look-alike encodings: the governance bytes as suffix or prefix of a longer account, truncated, other prefix, hex, surrounding space); non-trivial = the same payload SUCCEEDS under the governance authority (so the authority guard, not validation, is what "
              "rejected it) and the drawn authority is not the governance address; distinct = distinct (type, chain, authority shape, payload mode)"),
        assumptions=["baseapp discards a failed message's writes (reproduced by the harness: cache context written only on success)",
                     "a case-variant of the governance bech32 string counts as the governance authority (x/evm compares case-insensitively)"],
        quick=[dict(test="TestC16", cases=24000, shards=16, timeout=600)],
        thorough=[dict(test="TestC16", cases=480000, shards=16, timeout=3000, shrink=120)],
    ),
    "C03": dict(
        level="exploration",
        rule=("pairs (c, c') of valid claims of one of the 6 claim types where c' differs from c in exactly one execution-relevant field (deposit targets also from a pool of meaningful module / chain / IBC routes in every spelling the target parser knows), "
              "or re-splits two adjacent free-form fields, or swaps/moves list elements; oracle: ClaimHash(c) != ClaimHash(c'), and for a quarter "
              "of the parked/registered types additionally a 3-oracle tally on the real keeper (votes A,B,B: nothing observed before two oracles agree, "
              "applied claim == B field for field); every generated pair is non-trivial; distinct = distinct (type, mutation kind+field, stateful)"),
        assumptions=["chain_name and the voter's own bridger_address are not execution-relevant (they are per-voter)"],
        quick=[dict(test="TestC03", cases=120000, shards=16, timeout=600)],
        thorough=[dict(test="TestC03", cases=2400000, shards=16, timeout=3000, shrink=120)],
    ),
    "C20": dict(
        level="exploration",
        rule=("(A) inputs a peer can send: (i) a message of any registered type filled by reflection with extreme/absent values, marshalled and mutated at the "
              "protobuf wire level (fields dropped, emptied, duplicated, replaced by hostile text), wrapped in a tx and run through TxDecoder, every message's "
              "ValidateBasic, signer extraction and the ante handler in CheckTx mode; (ii) raw tx bytes; (iii) precompile call data: every method selector of both "
              "precompiles with arbitrary, word-shaped, truncated and length-lying tails and with ABI-well-formed arguments generated from the method's input types (independent array lengths, boundary numbers up to 2^256-1, hostile strings) through a real EVM tx; (iv) hostile strings into the target/address parsers. "
              "Oracle: no panic (a panic recovered by baseapp/ante as ErrPanic counts as a panic). non-trivial = the input was decoded into typed messages / reached a "
              "method selector / parser; distinct = distinct (kind, type or method, outcome class). (B) see fee_rule keys."),
        assumptions=["Must*-style helpers that panic by contract are only reached with validated input (they are not called directly)"],
        quick=[dict(test="TestC20A", cases=120000, shards=16, timeout=600), dict(test="TestC20B", cases=16000, shards=16, timeout=600)],
        thorough=[dict(test="TestC20A", cases=2400000, shards=16, timeout=3000, shrink=120), dict(test="TestC20B", cases=240000, shards=16, timeout=3000, shrink=120)],
    ),
    "C01": dict(
        level="exploration",
        rule=("histories (pure data op lists, <= 40 steps quick / 80 thorough) on a chain with 1..5 (8) freshly bonded oracles of generated stakes: votes with nonce choice {own+1, last observed+1, own, own+2, far} "
              "and up to 3 competing variants per event nonce over a generated plan of claim types, executeClaim through the precompile (also repeated / never parked), governance oracle-list updates, bond, add-delegate, "
              "unbond, a remove->withdraw->re-approve->re-bond cycle, end-blocks (slashing with a small signed window) and oracle-set confirmations. Invariants after every step over the raw stores and a model of the "
              "per-oracle cursor. TestC01Reenter: parked inbound bridge calls whose target contract re-enters crosschain.executeClaim (for itself directly / twice / through a second contract, or for another parked claim; caught or propagated; returning or reverting): each claim credits at most its amount. non-trivial = >= 2 variants of one nonce received votes and some nonce was observed, or stake/membership changed while an attestation was open; distinct = distinct (oracle count, plan, op-kind/argument-class sequence)"),
        assumptions=["claims enter through the MsgClaim handler with the unpacked claim (on this snapshot MsgClaim fails ValidateBasic after wire decoding, see DESIGN.md)", "pruning beyond 100 nonces is not reached in the quick tier"],
        quick=[dict(test="TestC01", cases=24000, shards=16, timeout=900), dict(test="TestC01Reenter", cases=400, shards=16, timeout=900)],
        thorough=[dict(test="TestC01", cases=480000, shards=16, timeout=3400, shrink=120), dict(test="TestC01Reenter", cases=8000, shards=2, timeout=3400)],
    ),
    "C02": dict(
        level="exploration",
        rule=("the C01 machine with 1..12 (20) oracles and stake distributions uniform-in-bounds / one whale / all minimal under generated delegate threshold (100,300,700,1000,10000 FX = power 1,3,7,10,100) and multiple; at the step an event becomes observed the harness "
              "recomputes, from the pre-step store, the power of the DISTINCT registered oracles whose votes for exactly that content were accepted and requires 100*S >= 66*recorded total; recorded total >= power of online oracles after every step; "
              "accepted vote => online registered oracle. non-trivial = an event observed with >= 2 voters of unequal stake, or a stake/membership change while an attestation was open"),
        assumptions=["claims enter through the MsgClaim handler with the unpacked claim; the block-level signer clause is checked by TestC02Signer"],
        quick=[dict(test="TestC02", cases=24000, shards=16, timeout=900), dict(test="TestC02Signer", cases=96, shards=16, timeout=900)],
        thorough=[dict(test="TestC02", cases=480000, shards=16, timeout=3400, shrink=120), dict(test="TestC02Signer", cases=2000, shards=2, timeout=3400)],
    ),
    "C12": dict(
        level="exploration",
        rule=("(A) generated oracle sets (0..12, sometimes 100 members), batches (0..8/100 transfers, amounts up to 2^256-1) and bridge calls (0..4 tokens, data/memo 0..2000 bytes) with nonces/timeouts/event nonces/powers over the whole uint64 range "
              "(boundary biased: 2^63-1, 2^63, 2^64-1), gravity ids 1..32 bytes, eth and tron address forms: fxcore's checkpoint (go-ethereum-ABI variant and gotron-ABI variant) must equal keccak(abi.encode(..)) from the independent encoder; changing gravity id or nonce must change it. "
              "non-trivial = object with a dynamic element. (B) on the real keeper: two stored objects per kind, confirmations built from {own, other oracle's, stranger} key x {right, other object's, other gravity id's, other chain prefix's} digest x bridger x external-address field x signature surgery "
              "(malleated s, v+27, v=2, 64/66 bytes, empty, bit flip) x missing object x repetition; accepted <=> reference verification; stored confirmations per (object, oracle) <= 1. non-trivial = any not-all-right combination"),
        assumptions=["the contract side is a transcription of FxBridgeLogic.sol's abi.encode argument lists (no Solidity compiler in the sandbox)", "keccak and secp256k1 recovery from go-ethereum are trusted"],
        quick=[dict(test="TestC12A", cases=90000, shards=16, timeout=600), dict(test="TestC12B", cases=15000, shards=16, timeout=600)],
        thorough=[dict(test="TestC12A", cases=1800000, shards=16, timeout=3000, shrink=120), dict(test="TestC12B", cases=300000, shards=16, timeout=3000, shrink=120)],
    ),
    "C04": dict(
        level="exploration",
        rule='histories (pure data, <= 45 ops quick / 120 thorough) by 3 users over FX, a module-owned multi-chain pair and an externally-owned pair on 3 chains (eth, bsc, tron) with generated timeout / block-time parameters: send, cancel, increase-fee and bridge-call through Cosmos messages and through the precompile (crossChain, cancelSendToExternal, increaseBridgeFee, bridgeCall), request-batch with generated base/minimum fee, deposits (bech32 / erc20 target) and inbound bridge calls as oracle claims with deferred executeClaim, batch-executed events in and out of order, bridge-call results (success / failure), height-only events with jumps to timeout-1 / timeout / timeout+1 of open objects and events that report a height below an earlier one, deposits addressed onwards to an IBC route, transfers without a bridge fee through the precompile, bridge-call data and memo of several lengths, fxcore height jumps, and a governance raw-store reset of the observed height. The harness plays the external contract (height < timeout, batch nonce increasing per token) and only emits admissible events. ' + "Oracle: ledger per token group after every step: held by tracked accounts (all representations) + pool/batches/outgoing calls + observed-but-unexecuted inbound claims = initial + observed deposits - withdrawals observed as executed; every tracked account's holdings change by exactly what the operation states; for the module-owned multi-chain token what is queued towards plus executed on one external chain never exceeds what came in through it; and a final probe on a branch of the end state (genesis FX escrow paid out beforehand, so the escrow holds only what the history put there): every queued transfer is cancelled by its owner with amount+fee refunded, every holder sends all they hold (bounded per chain by what that chain's contract holds for the multi-chain token) and everything that left a home-chain token's chain comes back as one deposit - none may be refused. Generator: most operations focus on one (chain, token), composites send..batch and far-batch/reset/near-batch/boundary-jump, large sends of a quarter to all of a balance. non-trivial = history with a deposit, a withdrawal door and a refund/cancel/timeout over >= 2 token kinds",
        assumptions=["IBC vouchers are left to C19", "tokens originating on fxcore are only deposited back up to the amount currently out on that chain (the external contract cannot release more)"],
        quick=[dict(test="TestC04", cases=1200, shards=16, timeout=900)],
        thorough=[dict(test="TestC04", cases=8000, shards=16, timeout=3400, shrink=120)],
    ),
    "C05": dict(
        level="exploration",
        rule='histories (pure data, <= 45 ops quick / 120 thorough) by 3 users over FX, a module-owned multi-chain pair and an externally-owned pair on 3 chains (eth, bsc, tron) with generated timeout / block-time parameters: send, cancel, increase-fee and bridge-call through Cosmos messages and through the precompile (crossChain, cancelSendToExternal, increaseBridgeFee, bridgeCall), request-batch with generated base/minimum fee, deposits (bech32 / erc20 target) and inbound bridge calls as oracle claims with deferred executeClaim, batch-executed events in and out of order, bridge-call results (success / failure), height-only events with jumps to timeout-1 / timeout / timeout+1 of open objects and events that report a height below an earlier one, deposits addressed onwards to an IBC route, transfers without a bridge fee through the precompile, bridge-call data and memo of several lengths, fxcore height jumps, and a governance raw-store reset of the observed height. The harness plays the external contract (height < timeout, batch nonce increasing per token) and only emits admissible events. ' + "Oracle: reference model of pool / batches / calls compared with the decoded stores after every step (each id in exactly one place, fields byte-equal to what the creator supplied, ids strictly increasing), settlement amounts per account, cancel only by the creator, batch cancel returns transfers unchanged, a call whose execution was observed is never refunded. non-trivial = history with a batch and (cancel after batching, out-of-order execution, fee increase or batch timeout)",
        assumptions=["releases are observed (not predicted) and then validated, so a different but property-conforming release order would not alarm"],
        quick=[dict(test="TestC05", cases=1200, shards=16, timeout=900)],
        thorough=[dict(test="TestC05", cases=12000, shards=16, timeout=3400, shrink=120)],
    ),
    "C06": dict(
        level="exploration",
        rule='histories (pure data, <= 45 ops quick / 120 thorough) by 3 users over FX, a module-owned multi-chain pair and an externally-owned pair on 3 chains (eth, bsc, tron) with generated timeout / block-time parameters: send, cancel, increase-fee and bridge-call through Cosmos messages and through the precompile (crossChain, cancelSendToExternal, increaseBridgeFee, bridgeCall), request-batch with generated base/minimum fee, deposits (bech32 / erc20 target) and inbound bridge calls as oracle claims with deferred executeClaim, batch-executed events in and out of order, bridge-call results (success / failure), height-only events with jumps to timeout-1 / timeout / timeout+1 of open objects and events that report a height below an earlier one, deposits addressed onwards to an IBC route, transfers without a bridge fee through the precompile, bridge-call data and memo of several lengths, fxcore height jumps, and a governance raw-store reset of the observed height. The harness plays the external contract (height < timeout, batch nonce increasing per token) and only emits admissible events. ' + "Oracle: a batch / call may disappear for timeout only in a step that observed an event and only if the last observed external height >= its timeout; nothing can be batched / called out while no external height is observed; an admissible execution event is never rejected; an object whose execution the external chain reported is never refunded. Generator as for C04, including the composite that builds an older batch with a later timeout than a newer batch of the same token and then jumps the observed height around the nearer timeout. non-trivial = a timeout release and an execution (or a boundary-height jump, or an older batch with a later timeout) in one history",
        assumptions=["the external contract is modelled by its three relevant require()s"],
        quick=[dict(test="TestC06", cases=2400, shards=16, timeout=900)],
        thorough=[dict(test="TestC06", cases=24000, shards=16, timeout=3400, shrink=120)],
    ),
    "C11": dict(
        level="exploration",
        rule=("histories (<= 30 ops quick / 80 thorough) of staking-precompile calls by 3 EOAs and a contract over 3 validators: delegateV2, undelegateV2, redelegateV2, withdraw, approveShares, transferShares, transferFromShares "
              "(sender == recipient explicitly generated; recipient with/without delegation; all / half / all-1 / given share amounts, odd wei), interleaved with real reward allocation and real validator slashing. Oracle: per transfer exact share movement, "
              "validator tokens/shares untouched, allowance reduced exactly, pending rewards of both parties paid, a transfer (by the owner or by a spender) of shares whose owner has an unmatured redelegation into that validator is refused (composite redelegate / approve / transferFrom on the destination validator); after every step delegations sum to validator shares and every registered crisis invariant (staking, distribution, bank, gov) holds; at the end every delegator withdraws and fully undelegates. "
              "non-trivial = a transfer after rewards accrued, or to oneself, or after a slash"),
        assumptions=["withdraw addresses are the delegators' own addresses", "the SDK's max-unbonding-entries limit is respected in the final undelegation"],
        quick=[dict(test="TestC11", cases=6400, shards=16, timeout=900)],
        thorough=[dict(test="TestC11", cases=48000, shards=16, timeout=3400, shrink=120)],
    ),
    "C07": dict(
        level="exploration",
        rule=("a fresh chain per case (1-2 chain modules, 2-4 oracles each, signed window 2..6 set by governance); histories of <= 45 (90) steps applied to the block under construction through the real handlers - deposits, sends, batch requests, bridge calls, "
              "confirmations per oracle of all / only oracle sets / only batches / only calls / nothing, governance proposals of 10 shapes (text, valid params, reverting contract call, failing raw store update, over-shrinking oracle list, over-spend, switch params, second message failing, allowed oracle-list change, custom params; "
              "sufficient or insufficient deposit), votes, direct oracle-list updates, add-delegate, unbond, delegations, absent validators - interleaved with real FinalizeBlock+Commit of all begin/end blockers with time steps 5 s / 1 h / 15 d / 22 d. Oracle: no error, no panic. "
              "non-trivial = a block was processed while an online oracle had left an oracle set / batch / outgoing bridge call older than the signed window unconfirmed, or a proposal ended"),
        assumptions=["oracle claims are injected through the MsgClaim handler with unpacked claims (wire delivery of MsgClaim is impossible on this snapshot)", "governance raw store updates are restricted to value-preserving or failing ones (writing garbage into a module store is outside 'valid')"],
        quick=[dict(test="TestC07", cases=1920, shards=16, timeout=900)],
        thorough=[dict(test="TestC07", cases=9600, shards=16, timeout=3400, shrink=120)],
    ),
    "C10": dict(
        level="exploration",
        rule=("one precompile call per case on a prepared state (victims with delegations, accrued rewards, a queued withdrawal, ERC-20 allowances towards the crosschain precompile, a share allowance of 0 / exact / short-by-one / ample towards the caller; a parked deposit): "
              "caller in {EOA, contract, contract called by a victim}, call kind in {CALL, STATICCALL, DELEGATECALL, CALLCODE}, all 12 state-changing methods with arguments naming victims (from in transferFromShares, the victim's pool id also as 2^64+id, refund address), "
              "governance switch in {none, address (upper case), address/method, address/METHOD, unrelated entries}, the covering entry placed anywhere among 0-3 further entries (other methods of the same precompile, the other precompile or its methods, unknown addresses). Oracle: no account other than the direct caller loses any portfolio component (bank+pending rewards together, ERC-20, shares, unbonding, queued withdrawals, outgoing calls) "
              "except from in transferFromShares by exactly shares <= allowance with allowance reduced exactly; non-CALL kinds and disabled targets fail and leave the state equal to that of a no-op transaction by the same sender. "
              "non-trivial = the call names a victim, uses a non-CALL kind, runs under a switch list, or is made by a contract a victim called"),
        assumptions=["the governance switch entry format is the one the code documents: 0xaddr or 0xaddr/methodIdHex (no 0x on the method id), any letter case"],
        quick=[dict(test="TestC10", cases=16000, shards=16, timeout=900)],
        thorough=[dict(test="TestC10", cases=320000, shards=16, timeout=3400, shrink=120)],
    ),
    "C09": dict(
        level="fault_enumeration",
        rule=("call trees (depth <= 3 over three interpreter contracts, <= 4 (6) ops per frame: precompile methods with valid / too-large / malformed arguments and every call kind, token transfers, nested contracts; each op caught or propagated, with or without a gas cap; frames ending in RETURN / REVERT / INVALID) "
              "around all 12 state-changing precompile methods. Fault points: each tree is run with ample gas and then at 8 (30) gas limits drawn from 0..105% of the gas it used plus the absolute limits 0, 20999, 21000, 25000, 53000. "
              "Oracle: failed tx => state of a reverted no-op tx and no logs; successful tx => state and logs equal those of the tree with every EVM-dropped sub-tree deleted (outcome bits returned by the interpreter). "
              "non-trivial = a precompile call succeeded inside a frame the EVM later dropped, or a gas limit made the transaction fail after execution had started; evaluations counts trees, gas-points counts executions"),
        assumptions=["the interpreter contract's outcome bits are taken from the EVM's own success flags"],
        quick=[dict(test="TestC09", cases=4800, shards=16, timeout=900)],
        thorough=[dict(test="TestC09", cases=96000, shards=16, timeout=3400, shrink=120)],
    ),
    "C08": dict(
        level="exploration",
        rule=("(A) histories (<= 30 ops) of convert-coin, convert-erc20, convert-denom (every target; receivers are users and module accounts; users hold legacy per-chain denominations of the module-owned pair; composite base->alias->base), ERC-20 transfers, register-coin, register-erc20, toggle and alias updates by 4 holders over FX/WFX, a module-owned pair, an externally-owned pair and pairs registered during the history; "
              "(B) EVM programs (2..6 steps, one contract, one token) mixing token.transfer / approve / transferFrom / transfer-to-module with crossChain, bridgeCall, cancelSendToExternal, increaseBridgeFee and executeClaim of a deposit to the contract itself, each step caught or propagated, frame returning or reverting. "
              "Invariants after every step / transaction: module-owned pair escrow == ERC-20 total supply (FX: coins held by the wrapper contract), externally-owned pair: ERC-20 escrowed by the module == coin supply over base + bridge denominations, balances over the closed holder set == total supply, "
              "pair / by-denom / by-erc20 / alias indexes and bank metadata describe one set of pairs; a conversion moves exactly the amount from sender to receiver and nothing else. non-trivial: (A) conversions over >= 2 pair kinds; (B) the program writes the token before a precompile call converts it in the same successful transaction"),
        assumptions=["the ERC-20 holder set is closed by construction (the generator only targets known addresses)"],
        quick=[dict(test="TestC08A", cases=3200, shards=16, timeout=900), dict(test="TestC08B", cases=1600, shards=16, timeout=900)],
        thorough=[dict(test="TestC08A", cases=8000, shards=16, timeout=3400, shrink=120), dict(test="TestC08B", cases=16000, shards=16, timeout=3400, shrink=120)],
    ),
    "C13": dict(
        level="exploration",
        rule=("histories (<= 35 ops quick / 90 thorough) on a chain module with 2..5 governance-approved oracles (threshold 100 FX, multiple 10, signed window 2..4, slash fraction 0/1/10/50/100 %): bond with amounts below / inside / above the bounds and with another oracle's bridger or external address, "
              "add-delegate, re-delegate, edit-bridger (message server method called directly: the message cannot pass the router on this snapshot), withdraw-reward, governance list updates (arbitrary subsets, remove-one), outgoing bridge calls, per-oracle oracle-set and bridge-call confirmations, end blocks, validator slashing, passing of the unbonding period (real staking end blocker), withdrawal before / after maturity and repeated. "
              "Oracle: record <-> bridger index <-> external index bijection from the raw stores after every step; only approved oracles bond, inside the bounds, paying exactly the stake; recorded stake = transferred - penalties and equals what is delegated on its behalf; one update never removes >= 30 % of online power; "
              "an oracle goes offline at an end block only if an oracle set created at or after the height at which it last joined (bond, or back online by paying its penalty - tracked by the model, not read from the record) stayed unconfirmed by it for the signed window; after removal and maturity the withdrawal succeeds once, pays delegate-account balance minus penalty and deletes the three records; before maturity it must not delete them. "
              "Generator composites: full life cycle (removal, early withdrawal, maturity, two withdrawals), late joiner with colliding addresses, and miss-window / pay penalty / confirm only newer sets / older windows pass. non-trivial = a stake withdrawn after maturity, a slash decision, or a removal followed by the unbonding period"),
        assumptions=["edit-bridger is exercised at handler level only (its ValidateBasic demands a validator-operator prefix on this snapshot)"],
        quick=[dict(test="TestC13", cases=9600, shards=16, timeout=900)],
        thorough=[dict(test="TestC13", cases=192000, shards=16, timeout=3400, shrink=120)],
    ),
    "C14": dict(
        level="exploration",
        rule=("source portfolios (0..4 denominations, delegations on 0..3 validators, 0..3 unbonding entries at distinct times some of which share their completion slice with another delegator's entries, 0..2 redelegations, accrued rewards), source kinds (normal, no public key, eth key, validator operator, already migrated), "
              "targets (fresh, with balance, with delegation, with unbonding, validator operator, already migrated), governance involvement of source or target as proposer / depositor / voter of a proposal in its deposit period / voting period / already ended, signatures (right, other key, over (target, source), over another source, garbage), "
              "0..4 later time steps (1 h .. 600 h, real staking end blocker) and a second migration (same source, or another source onto the same target). Oracle: acceptance <=> all stated conditions; on acceptance target-after == source-before (+) target-before (balances, shares, unbonding and redelegation entries, pending rewards), source empty incl. the maturation queues, totals unchanged, crisis invariants, matured funds paid to the target, target can undelegate, second migration refused. "
              "non-trivial = portfolio with an unbonding or redelegation entry, or governance involvement"),
        assumptions=["an account's public key is set directly on the account (as after its first transaction)"],
        quick=[dict(test="TestC14", cases=9600, shards=16, timeout=900)],
        thorough=[dict(test="TestC14", cases=192000, shards=16, timeout=3400, shrink=120)],
    ),
    "C15": dict(
        level="exploration",
        rule=("histories (<= 30 ops quick / 80 thorough) under generated governance parameters (minimum deposit 100 / 1000 FX, minimum initial deposit ratio 0 / 25 / 100 %, minimum deposit ratio 0 / 1 / 50 %, voting period 600 / 3600 s, deposit period 500 / 2000 s, quorum 10 / 40 / 90 %, the three burn flags) and 0..3 extra delegations: "
              "submit (text, community-pool spend with amounts at share-of-request = default minimum -1 / 0 / +1 base unit and beyond, two spends whose second may exceed the pool, erc20 toggle, two toggles whose second fails, governance switch update, mixed types) with no / the required / a generic initial deposit, "
              "deposit (small, missing-1, exactly missing, missing+1, generic; other denomination), vote and weighted vote by users and validator operators, cancel by the proposer or somebody else, MsgUpdateCustomParams set / delete for the spend, toggle and switch types in between, time steps of 60 s or to one second before / exactly at / one second after the next deposit or voting deadline followed by the real gov end blocker. "
              "Oracle (reference model + exact-rational tally over the staking state): after every step governance-account balance = sum of stored deposits = deposits of the model's open proposals, stored status and total deposit = model; a proposal is in voting only if its FX deposit >= max(default minimum, floor(share x requested)) for spends; voting end = start + period of its type at activation; "
              "at the deadline the outcome equals the model's outcome with the quorum of its type at tally time (comparisons closer than 1e-15 to a threshold are skipped and counted); every depositor's balance grows by exactly the refunds of that step and the supply falls by exactly the burned deposits; cancellation refunds deposit minus the charge; mixed-type proposals are refused; "
              "a passed proposal's messages apply all (recipients paid, token toggled) or none (recipients empty, toggle unchanged, no store other than gov / bank changed). non-trivial = a proposal ended and (>= 2 proposals of different types in the history, or per-type parameters changed while a proposal of that type was open)"),
        assumptions=["expedited proposals are not generated (the property does not say which of the per-type and the expedited periods wins)", "per-type parameters are changed by MsgUpdateCustomParams with the governance authority directly, not through a passed proposal"],
        quick=[dict(test="TestC15", cases=24000, shards=16, timeout=900)],
        thorough=[dict(test="TestC15", cases=480000, shards=16, timeout=3400, shrink=120)],
    ),
    "C17": dict(
        level="exploration",
        rule=("block histories (the C07 alphabet, <= 45 operations quick / 90 thorough, on fresh chains with 1-2 bridge chains and 2-4 oracles each; composite: batches of 2-3 tokens, then one event far beyond every timeout; the trace includes every message-level result, oracle votes inside an observed claim too): oracle claims with deferred execution, sends, batches, bridge calls, per-oracle confirmations, oracle-list updates, governance proposals of ten kinds with votes by a large delegator and by validator operators, erc20 conversions, account migration with delegation and unbonding, "
              "signed EVM transactions (crossChain with ERC-20 and with native value, staking delegateV2, token transfer) and signed Cosmos transactions included in blocks, absent validators, time jumps of 5 s .. 22 days, real FinalizeBlock + Commit. Every history is executed on 3 replicas quick / 4 thorough: fresh chains in the generating process plus one in a re-executed child process with GOMAXPROCS=1, another TZ and GOGC "
              "(wall clock differs by construction; Go randomises every map range, so each replica has its own map orders). Oracle: per block equal application hash, FinalizeBlock response hash, transaction results (code, codespace, gas, data, log, events) and ordered event list; equal outcome, data and events of every operation applied to the block being built. "
              "non-trivial = >= 3 blocks and a batch, bridge call, validator-operator vote, migration or ended proposal in the history"),
        assumptions=["a dependence that shows with probability p per replica is detected with probability 1-(1-p)^k for k extra replicas only", "operations that cannot travel in transactions on this snapshot (oracle claims) are applied to the block being built through the real handlers, identically on every replica"],
        quick=[dict(test="TestC17", cases=480, shards=16, timeout=900)],
        thorough=[dict(test="TestC17", cases=3200, shards=16, timeout=3400, shrink=120)],
    ),
    "C18": dict(
        level="exploration",
        rule=("one fault point per case on a branch of the base state. event: an observed event whose handler fails (duplicate bridge token, FX with wrong decimals, oracle-set update for an unknown nonce) on each of 3 chains - the store diff must lie inside the attestation bookkeeping keys of that chain. "
              "bridgecall: an inbound bridge call with 1-3 distinct tokens (FX, module-owned, externally-owned - the latter after one executed outgoing transfer so that the event is admissible) observed and executed through executeClaim, with the follow-up failing at a generated point: callback mode with a callee that reverts / hits INVALID / writes storage then reverts / writes storage then loops until the generated bridge-call gas limit (default, 21k, 60k, 150k, 1M) / succeeds / is no contract; "
              "send-call-to mode with a Runner script (0-3 token transfers / crossChain calls from the Runner's own funds, caught or not) ending in REVERT / INVALID / gas burn / RETURN; conversion disabled for the k-th token; refund address = receiver / a funded user / a fresh address. Oracle: a failing follow-up settles the claim (executeClaim succeeds, pending entry gone) with a refund record carrying exactly the claim's tokens and refund address, "
              "and leaves the holdings (bank base + bridge denominations + ERC-20) of receiver, callee, refund address, sender, three users and the executor, every supply and the callee's storage unchanged; a follow-up that must fail is never settled as a success. "
              "proposal: n = 1..4 same-type messages (community-pool spends / oracle-list updates / erc20 toggles) whose i-th fails with an error or a panic, voted through by all validators and tallied by the real gov end blocker: the full store dump equals, outside the governance store, the dump reached from the same pre-state by a proposal consisting of the failing message alone. "
              "non-trivial = the failure happens after at least one write of the failed sub-step (storage write, earlier token converted, script step, earlier message)"),
        assumptions=["the IBC boundary is covered by C19's machinery"],
        quick=[dict(test="TestC18", cases=16000, shards=16, timeout=900)],
        thorough=[dict(test="TestC18", cases=320000, shards=16, timeout=3400, shrink=120)],
    ),
    "C19": dict(
        level="exploration",
        rule=("histories (<= 25 ops quick / 70 thorough) on two open transfer channels written into the real IBC stores (client, connection, channel, capability; sends go through the real channel keeper, each sent packet is rebuilt and matched against the stored commitment) with ibc-go v8.5.1's delivery rules emulated (receipt / commitment based no-op on replay; receive callback in a cache context written only for a successful acknowledgement; an error from the acknowledgement / timeout callback fails the message): "
              "inbound packets with denomination in {voucher registered as a pair by its ibc denomination, voucher registered as an alias of a base coin, the same base denomination over the other channel, unregistered, returning FX up to what earlier acknowledged transfers of the history delivered, returning FX beyond the escrow, FX claiming another channel}, receiver in {hex user, bech32 user, contract, garbage}, amount in {1..100000, 0, 2^256, text}, memo in {none, EVM call to a caller-recording contract, EVM call to a reverting contract, truncated json, other json}, three foreign senders (one equal to a local account's bech32 string); "
              "outbound MsgTransfer of FX / voucher coins and crossChain precompile calls with an IBC target (native value, wrapped FX, voucher ERC-20) by three users; success / error acknowledgements and timeouts of any in-flight packet in any order; replays of inbound packets and of resolved deliveries. "
              "Oracle: success acknowledgement => exactly the amount to the receiver (ERC-20 for vouchers, coin for FX), every other tracked holding (users, contracts, all derived memo senders; coin and ERC-20 form separately) unchanged, supply of the token's denominations + amount (unchanged for returning FX); error acknowledgement => no store outside the IBC core's changes; memo call runs as hash(source port/channel, sender), never as a local account; "
              "a send debits exactly the amount in the form sent, a refused send changes nothing and leaves no tracking record; error acknowledgement / timeout refunds exactly the amount in the form sent, once (replays change nothing), a success acknowledgement refunds nothing; no tracking record remains after any resolution; each channel's escrow holds exactly sends - refunds - returns. non-trivial = transfers resolved out of sending order, or an inbound packet with a memo call"),
        assumptions=["light-client proofs are not exercised: delivery follows ibc-go v8.5.1's message server rules as emulated in harness/sim/ibc.go", "on this snapshot every ERC-20-started IBC transfer is refused by the precompile (counted in the evidence labels), so refunds in ERC-20 form are reachable only if that changes"],
        quick=[dict(test="TestC19", cases=3200, shards=16, timeout=900)],
        thorough=[dict(test="TestC19", cases=32000, shards=16, timeout=3400, shrink=120)],
    ),
}
