HOOK_COMMITS = []
NOT_YET = {}
META = {
    "C16": dict(
        technique="property-based testing (rapid): enumerated message types x generated payloads x generated non-governance authorities, specification oracle + full store diff; compare-and-set model for UpdateStore",
        text="Exploration: for every authority-carrying message type found in the app's own registry (33 types, 8 chains), thousands of generated (payload, authority) cases are executed through the real message router; each must be rejected with the complete multi-store dump byte-identical, while the same payload under the governance authority is shown to apply (non-vacuity). A newly added handler is picked up by enumeration. Evidence of absence only over the generated cases.",
        note="Trusts baseapp's discard-on-error (reproduced by the harness), the SDK/ibc-go modules as linked, MemDB as store.",
    ),
    "C03": dict(
        technique="property-based testing (rapid): metamorphic relation (single-field mutation / re-split / swap => different ClaimHash) plus generated 3-oracle tallies on the real keeper",
        text="Exploration: generated valid claim pairs of all 6 claim types differing in one execution-relevant field, in how adjacent free-form fields are split, or in list order must hash differently; a quarter of the pairs are also voted on the real crosschain keeper (A,B,B) where nothing may be observed before two oracles agree and the applied claim must equal B field for field.",
        note="ValidateBasic defines the domain of valid claims; chain_name and bridger_address are per-voter and excluded.",
    ),
    "C20": dict(
        technique="property-based testing (rapid) with a protobuf wire-level mutator over reflection-filled and valid-by-construction messages (crash oracle), generated precompile call data through real EVM txs, and a specification oracle for the fee-bypass rule over generated node configurations; native go-fuzz targets in the thorough tier",
        text="Exploration: (A) tens of thousands of byte-level inputs per run reach TxDecoder, every registered message type's ValidateBasic and signer extraction, the ante handler, claim/confirm decoding, all 20 precompile methods and the target/address parsers; any panic (also one recovered as ErrPanic) is a violation. (B) thousands of CheckTx-mode ante executions on apps built with generated exempt-type lists and allowances are compared with an independent statement of the bypass rule at the +-1 boundaries of gas allowance and required fee.",
        note="MsgClaim cannot pass ValidateBasic after wire decoding on this snapshot (no UnpackInterfaces), so claims are additionally fed as Any bytes. The ante handler is invoked directly in CheckTx mode (baseapp's decode / validate-basic order is reproduced by the harness).",
    ),
    "C01": dict(
        technique="stateful property-based testing (rapid-generated operation histories as pure data) against the real crosschain keeper, precompile and end blocker; invariants over raw stores after every step plus a reference model of the per-oracle event-nonce cursor",
        text="Exploration: generated vote / execute / governance / bond / unbond / re-bond / end-block histories with competing claims per nonce; after every step: last observed nonce advances by at most one and only for the voted nonce, at most one observed attestation per nonce without gaps, no oracle vote accepted twice for a nonce or out of cursor order, rejected votes and failed executions leave the module store and balances unchanged, a parked claim executes at most once.",
        note="Claims are injected at the MsgClaim handler with unpacked claims; the EVM, staking and bank keepers are the real ones. Pruning (> 100 nonces) only in the thorough tier.",
    ),
    "C02": dict(
        technique="stateful property-based testing (rapid) with an independent quorum oracle: at the step an event becomes observed the harness recomputes the power of the distinct registered oracles whose votes for exactly that content it saw accepted, from the pre-step store",
        text="Exploration: oracle sets of 1..12 (20 thorough) members with generated stake distributions and delegate bounds; every observation must satisfy 100*S >= 66*recorded total with S over distinct registered voters of that very claim, recorded total power never below the online oracles' power, votes only from online registered oracles; a block-level sub-check delivers MsgClaim transactions whose wrapper and wrapped bridger differ and requires that no vote is recorded for an oracle whose bridger did not sign.",
        note="Same machine as C01. Power unit = 100 FX (sdk.DefaultPowerReduction in this app).",
    ),
    "C12": dict(
        technique="property-based differential testing (rapid): fxcore's checkpoint functions vs an independently written Solidity-ABI encoder over boundary-biased generated objects; stateful generated confirmation matrix (key x digest x bridger x address field x signature surgery) against a reference verifier",
        text="Exploration: thousands of generated oracle sets / batches / bridge calls over the full uint64 and uint256 ranges are hashed by fxcore (both ABI variants) and by the reference transcribed from FxBridgeLogic.sol; on the real keeper generated well-formed and transplanted / malformed confirmations must be accepted exactly when the reference verification says so and are stored at most once per object and oracle.",
        note="Contract side = transcription of the Solidity abi.encode argument lists (no compiler available); go-ethereum keccak/secp256k1 trusted.",
    ),
}
