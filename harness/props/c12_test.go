package props

import (
	"bytes"
	"encoding/hex"
	"fmt"
	"math/big"
	"testing"

	sdkmath "cosmossdk.io/math"
	sdk "github.com/cosmos/cosmos-sdk/types"
	"github.com/ethereum/go-ethereum/common"
	"github.com/ethereum/go-ethereum/crypto"
	"pgregory.net/rapid"

	crosschaintypes "github.com/functionx/fx-core/v8/x/crosschain/types"
	trontypes "github.com/functionx/fx-core/v8/x/tron/types"

	"verif/harness/abiref"
	"verif/harness/ev"
	"verif/harness/sim"
)

// ---------------------------------------------------------------------------------------------
// C12 (A) — differential: the checkpoint fxcore signs over (go-ethereum ABI variant and the gotron
// ABI variant used for tron) equals keccak(abi.encode(...)) computed by the independent encoder
// `abiref` written from the Solidity source; distinct (gravity id, kind, object) => distinct digest.
// C12 (B) — stateful: a confirmation is accepted iff the object exists, the signature recovers to
// the registered external address of the oracle it names, the bridger is that oracle's, and it is
// not a duplicate; at most one confirmation per (object, oracle) is stored.
// ---------------------------------------------------------------------------------------------

type c12Member struct {
	Addr  int    `json:"addr"`
	Power uint64 `json:"power"`
}
type c12Tx struct {
	Dest   int    `json:"dest"`
	Amount string `json:"amount"`
	Fee    string `json:"fee"`
}
type c12Case struct {
	Kind       string      `json:"kind"` // oracleset | batch | bridgecall
	Tron       bool        `json:"tron"`
	GravityID  string      `json:"gravity_id"`
	Nonce      uint64      `json:"nonce"`
	Timeout    uint64      `json:"timeout"`
	EventNonce uint64      `json:"event_nonce"`
	Members    []c12Member `json:"members,omitempty"`
	Txs        []c12Tx     `json:"txs,omitempty"`
	Token      int         `json:"token"`
	FeeRecv    int         `json:"fee_receive"`
	Sender     int         `json:"sender"`
	Refund     int         `json:"refund"`
	To         int         `json:"to"`
	Tokens     []c12Tx     `json:"tokens,omitempty"` // Dest = token index, Amount
	Data       string      `json:"data_hex"`
	Memo       string      `json:"memo_hex"`
}

var c12U64 = []uint64{0, 1, 2, 1<<31 - 1, 1 << 32, 1<<63 - 1, 1 << 63, 1<<63 + 1, 1<<64 - 1}

func genU64(t *rapid.T, label string) uint64 {
	if rapid.IntRange(0, 2).Draw(t, label+".k") == 0 {
		return rapid.SampledFrom(c12U64).Draw(t, label+".b")
	}
	if rapid.Bool().Draw(t, label+".small") {
		return rapid.Uint64Range(0, 100000).Draw(t, label+".s")
	}
	return rapid.Uint64().Draw(t, label+".any")
}

var c12Amounts = []string{"0", "1", "1000000000000000000", "18446744073709551615", "18446744073709551616",
	"115792089237316195423570985008687907853269984665640564039457584007913129639935", "57896044618658097711785492504343953926634992332820282019728792003956564819968"}

func genAmount(t *rapid.T, label string) string {
	if rapid.IntRange(0, 2).Draw(t, label+".k") == 0 {
		return rapid.SampledFrom(c12Amounts).Draw(t, label+".b")
	}
	return fmt.Sprint(rapid.Uint64().Draw(t, label+".u"))
}

func genC12A(t *rapid.T) c12Case {
	c := c12Case{Kind: rapid.SampledFrom([]string{"oracleset", "batch", "bridgecall"}).Draw(t, "kind"), Tron: rapid.Bool().Draw(t, "tron")}
	c.GravityID = rapid.StringOfN(rapid.RuneFrom([]rune("abcxyz-019")), 1, 32, 32).Draw(t, "gid")
	c.Nonce = genU64(t, "nonce")
	c.Timeout = genU64(t, "timeout")
	c.EventNonce = genU64(t, "eventnonce")
	addr := func(l string) int { return rapid.IntRange(0, 40).Draw(t, l) }
	switch c.Kind {
	case "oracleset":
		n := rapid.IntRange(0, 12).Draw(t, "n")
		if rapid.IntRange(0, 30).Draw(t, "big") == 0 {
			n = 100
		}
		for i := 0; i < n; i++ {
			c.Members = append(c.Members, c12Member{Addr: addr("ma"), Power: genU64(t, "power")})
		}
	case "batch":
		n := rapid.IntRange(0, 8).Draw(t, "n")
		if rapid.IntRange(0, 30).Draw(t, "big") == 0 {
			n = 100
		}
		for i := 0; i < n; i++ {
			c.Txs = append(c.Txs, c12Tx{Dest: addr("dest"), Amount: genAmount(t, "amt"), Fee: genAmount(t, "fee")})
		}
		c.Token, c.FeeRecv = addr("token"), addr("feercv")
	case "bridgecall":
		n := rapid.IntRange(0, 4).Draw(t, "n")
		for i := 0; i < n; i++ {
			c.Tokens = append(c.Tokens, c12Tx{Dest: addr("tk"), Amount: genAmount(t, "tamt")})
		}
		c.Sender, c.Refund, c.To = addr("sender"), addr("refund"), addr("to")
		dl := rapid.SampledFrom([]int{0, 1, 31, 32, 33, 64, 100, 2000}).Draw(t, "dlen")
		ml := rapid.SampledFrom([]int{0, 1, 31, 32, 33, 64}).Draw(t, "mlen")
		c.Data = hex.EncodeToString(rapid.SliceOfN(rapid.Byte(), dl, dl).Draw(t, "data"))
		c.Memo = hex.EncodeToString(rapid.SliceOfN(rapid.Byte(), ml, ml).Draw(t, "memo"))
	}
	return c
}

func c12Addr(i int) abiref.Address {
	var a abiref.Address
	copy(a[:], common.BytesToAddress(crypto.Keccak256([]byte(fmt.Sprintf("c12addr/%d", i)))[:20]).Bytes())
	if i == 0 {
		a = abiref.Address{} // zero address
	}
	return a
}

func c12AddrStr(chain string, i int) string {
	a := c12Addr(i)
	return crosschaintypes.ExternalAddrToStr(chain, a[:])
}

func bigFrom(s string) *big.Int {
	b, ok := new(big.Int).SetString(s, 10)
	if !ok {
		panic(s)
	}
	return b
}

// c12Compute returns (fxcore digest, reference digest, error from fxcore).
func c12Compute(c c12Case) (got, want []byte, err error) {
	chain := "eth"
	if c.Tron {
		chain = "tron"
	}
	switch c.Kind {
	case "oracleset":
		os := &crosschaintypes.OracleSet{Nonce: c.Nonce}
		var as []abiref.Address
		var ps []uint64
		for _, m := range c.Members {
			os.Members = append(os.Members, crosschaintypes.BridgeValidator{Power: m.Power, ExternalAddress: c12AddrStr(chain, m.Addr)})
			as = append(as, c12Addr(m.Addr))
			ps = append(ps, m.Power)
		}
		if c.Tron {
			got, err = trontypes.GetCheckpointOracleSet(os, c.GravityID)
		} else {
			got, err = os.GetCheckpoint(c.GravityID)
		}
		want = abiref.OracleSetCheckpoint(c.GravityID, c.Nonce, as, ps)
	case "batch":
		b := &crosschaintypes.OutgoingTxBatch{BatchNonce: c.Nonce, BatchTimeout: c.Timeout, TokenContract: c12AddrStr(chain, c.Token), FeeReceive: c12AddrStr(chain, c.FeeRecv)}
		var amts, fees []*big.Int
		var dests []abiref.Address
		for i, tx := range c.Txs {
			b.Transactions = append(b.Transactions, &crosschaintypes.OutgoingTransferTx{Id: uint64(i + 1), Sender: "fx1xxx", DestAddress: c12AddrStr(chain, tx.Dest),
				Token: crosschaintypes.ERC20Token{Contract: b.TokenContract, Amount: sdkmath.NewIntFromBigInt(bigFrom(tx.Amount))},
				Fee:   crosschaintypes.ERC20Token{Contract: b.TokenContract, Amount: sdkmath.NewIntFromBigInt(bigFrom(tx.Fee))}})
			amts = append(amts, bigFrom(tx.Amount))
			fees = append(fees, bigFrom(tx.Fee))
			dests = append(dests, c12Addr(tx.Dest))
		}
		if c.Tron {
			got, err = trontypes.GetCheckpointConfirmBatch(b, c.GravityID)
		} else {
			got, err = b.GetCheckpoint(c.GravityID)
		}
		want = abiref.BatchCheckpoint(c.GravityID, amts, dests, fees, c.Nonce, c12Addr(c.Token), c.Timeout, c12Addr(c.FeeRecv))
	case "bridgecall":
		b := &crosschaintypes.OutgoingBridgeCall{Nonce: c.Nonce, Timeout: c.Timeout, EventNonce: c.EventNonce, Sender: c12AddrStr(chain, c.Sender), Refund: c12AddrStr(chain, c.Refund),
			To: c12AddrStr(chain, c.To), Data: c.Data, Memo: c.Memo}
		var tks []abiref.Address
		var amts []*big.Int
		for _, tk := range c.Tokens {
			b.Tokens = append(b.Tokens, crosschaintypes.ERC20Token{Contract: c12AddrStr(chain, tk.Dest), Amount: sdkmath.NewIntFromBigInt(bigFrom(tk.Amount))})
			tks = append(tks, c12Addr(tk.Dest))
			amts = append(amts, bigFrom(tk.Amount))
		}
		data, _ := hex.DecodeString(c.Data)
		memo, _ := hex.DecodeString(c.Memo)
		if c.Tron {
			got, err = trontypes.GetCheckpointBridgeCall(b, c.GravityID)
		} else {
			got, err = b.GetCheckpoint(c.GravityID)
		}
		want = abiref.BridgeCallCheckpoint(c.GravityID, c12Addr(c.Sender), c12Addr(c.Refund), tks, amts, c12Addr(c.To), data, memo, c.Nonce, c.Timeout, c.EventNonce)
	}
	return got, want, err
}

func c12Class(c c12Case) string {
	hi := func(x uint64) string {
		if x >= 1<<63 {
			return "hi"
		}
		return "lo"
	}
	maxPower := uint64(0)
	for _, m := range c.Members {
		if m.Power > maxPower {
			maxPower = m.Power
		}
	}
	return fmt.Sprintf("%s/tron=%v/nonce=%s/timeout=%s/event=%s/power=%s/n=%d", c.Kind, c.Tron, hi(c.Nonce), hi(c.Timeout), hi(c.EventNonce), hi(maxPower), len(c.Members)+len(c.Txs)+len(c.Tokens))
}

func runC12A(c c12Case, rec *ev.Recorder) *Failure {
	var got, want []byte
	var err error
	if fl := catchPanic("checkpoint", func() { got, want, err = c12Compute(c) }); fl != nil {
		fl.Sig = "C12/checkpoint-panic/" + c.Kind
		return fl
	}
	variant := "geth-abi"
	if c.Tron {
		variant = "gotron-abi"
	}
	if err != nil {
		return failf("C12/checkpoint-error/"+c.Kind+"/"+variant, "fxcore cannot build the checkpoint of a storable object: %v (%+v)", err, c)
	}
	if !bytes.Equal(got, want) {
		field := ""
		switch {
		case c.Nonce >= 1<<63:
			field = "nonce>=2^63"
		case c.Kind != "oracleset" && c.Timeout >= 1<<63:
			field = "timeout>=2^63"
		case c.Kind == "bridgecall" && c.EventNonce >= 1<<63:
			field = "event_nonce>=2^63"
		default:
			for _, m := range c.Members {
				if m.Power >= 1<<63 {
					field = "power>=2^63"
				}
			}
		}
		return failf("C12/digest-mismatch/"+c.Kind+"/"+variant+"/"+field, "checkpoint %x != keccak(abi.encode(...)) %x as the contract computes it (%s): %+v", got, want, field, c)
	}
	// distinctness: changing the gravity id or the nonce changes the digest
	c2 := c
	c2.GravityID = c.GravityID + "x"
	if len(c2.GravityID) > 32 {
		c2.GravityID = "y" + c.GravityID[1:]
		if c.GravityID[0] == 'y' {
			c2.GravityID = "z" + c.GravityID[1:]
		}
	}
	if g2, _, e2 := c12Compute(c2); e2 == nil && bytes.Equal(g2, got) {
		return failf("C12/digest-collision/gravity-id", "same digest for gravity ids %q and %q", c.GravityID, c2.GravityID)
	}
	c3 := c
	c3.Nonce = c.Nonce ^ 1
	if g3, _, e3 := c12Compute(c3); e3 == nil && bytes.Equal(g3, got) {
		return failf("C12/digest-collision/nonce", "same digest for nonces %d and %d", c.Nonce, c3.Nonce)
	}
	dynamic := len(c.Members)+len(c.Txs)+len(c.Tokens) > 0 || len(c.Data) > 0
	rec.Case(ev.Sig(c12Class(c)), dynamic, "A:"+c.Kind+"/"+variant)
	if dynamic && rec.WantSample() {
		rec.Sample(c)
	}
	return nil
}

func init() { registerReplay("C12", runC12A) }

func TestC12A(t *testing.T) { drive(t, "C12", genC12A, runC12A) }

// ----------------------------------------------------------------------------------------- (B)

type c12bCase struct {
	Chain      string `json:"chain"`
	Kind       string `json:"kind"`
	Oracle     int    `json:"oracle"`      // the oracle the confirmation names (ExternalAddress)
	SignKey    string `json:"sign_key"`    // own | other | stranger
	Checkpoint string `json:"checkpoint"`  // right | other-object | other-gravity | other-prefix
	Bridger    string `json:"bridger"`     // own | other | stranger
	ExtField   string `json:"ext_field"`   // own | other | stranger
	Surgery    string `json:"sig_surgery"` // none | malleate | v27 | v2 | trunc64 | len66 | empty | flipbit
	Missing    bool   `json:"missing_object"`
	Twice      bool   `json:"twice"`
}

func genC12B(t *rapid.T) c12bCase {
	pick := func(l string, opts ...string) string {
		// first option (the "right" one) has weight 1/2
		if rapid.Bool().Draw(t, l+".right") {
			return opts[0]
		}
		return rapid.SampledFrom(opts).Draw(t, l)
	}
	return c12bCase{
		Chain:      rapid.SampledFrom(baseChains).Draw(t, "chain"),
		Kind:       rapid.SampledFrom([]string{"oracleset", "batch", "bridgecall"}).Draw(t, "kind"),
		Oracle:     rapid.IntRange(0, 2).Draw(t, "oracle"),
		SignKey:    pick("key", "own", "other", "stranger"),
		Checkpoint: pick("cp", "right", "other-object", "other-gravity", "other-prefix"),
		Bridger:    pick("bridger", "own", "other", "stranger"),
		ExtField:   pick("ext", "own", "other", "stranger"),
		Surgery:    pick("surgery", "none", "malleate", "v27", "v2", "trunc64", "len66", "empty", "flipbit"),
		Missing:    rapid.IntRange(0, 9).Draw(t, "missing") == 0,
		Twice:      rapid.IntRange(0, 2).Draw(t, "twice") == 0,
	}
}

var secpN, _ = new(big.Int).SetString("fffffffffffffffffffffffffffffffebaaedce6af48a03bbfd25e8cd0364141", 16)

func runC12B(c c12bCase, rec *ev.Recorder) *Failure {
	f := base()
	ctx, _ := f.Ctx.CacheContext()
	ch := c.Chain
	k := f.Keeper(ch)
	keys := f.Oracles[ch]
	usdt := f.Token("USDT")
	user := f.Users[1]
	// two objects of the kind
	var cps [2][]byte // reference checkpoints (abiref) of object 0 and 1
	var nonces [2]uint64
	gid := k.GetGravityID(ctx)
	toRef := func(s string) abiref.Address {
		var a abiref.Address
		copy(a[:], crosschaintypes.ExternalAddrToHexAddr(ch, s).Bytes())
		return a
	}
	refFor := func(g string, i int) []byte {
		switch c.Kind {
		case "oracleset":
			os := k.GetOracleSet(ctx, nonces[i])
			var as []abiref.Address
			var ps []uint64
			for _, m := range os.Members {
				as = append(as, toRef(m.ExternalAddress))
				ps = append(ps, m.Power)
			}
			return abiref.OracleSetCheckpoint(g, os.Nonce, as, ps)
		case "batch":
			b := k.GetOutgoingTxBatch(ctx, usdt.Contracts[ch], nonces[i])
			var amts, fees []*big.Int
			var dests []abiref.Address
			for _, tx := range b.Transactions {
				amts = append(amts, tx.Token.Amount.BigInt())
				fees = append(fees, tx.Fee.Amount.BigInt())
				dests = append(dests, toRef(tx.DestAddress))
			}
			return abiref.BatchCheckpoint(g, amts, dests, fees, b.BatchNonce, toRef(b.TokenContract), b.BatchTimeout, toRef(b.FeeReceive))
		default:
			b, _ := k.GetOutgoingBridgeCallByNonce(ctx, nonces[i])
			var tks []abiref.Address
			var amts []*big.Int
			for _, tk := range b.Tokens {
				tks = append(tks, toRef(tk.Contract))
				amts = append(amts, tk.Amount.BigInt())
			}
			data, _ := hex.DecodeString(b.Data)
			memo, _ := hex.DecodeString(b.Memo)
			return abiref.BridgeCallCheckpoint(g, toRef(b.Sender), toRef(b.Refund), tks, amts, toRef(b.To), data, memo, b.Nonce, b.Timeout, b.EventNonce)
		}
	}
	switch c.Kind {
	case "oracleset":
		for i := 0; i < 2; i++ {
			ctx = ctx.WithBlockHeight(ctx.BlockHeight() + 1)
			if i == 1 { // change powers so that a second oracle set is requested
				if r := f.RunMsg(ctx, &crosschaintypes.MsgAddDelegate{ChainName: ch, OracleAddress: keys[0].Oracle.Acc().String(), Amount: sim.FxCoin(9000)}); !r.OK() {
					return failf("harness", "add delegate: %v", r.Err)
				}
			}
			k.EndBlocker(ctx)
			nonces[i] = k.GetLatestOracleSetNonce(ctx)
		}
		if nonces[0] == nonces[1] || nonces[0] == 0 {
			return failf("harness", "could not create two oracle sets (%v)", nonces)
		}
	case "batch":
		for i := 0; i < 2; i++ {
			ctx = ctx.WithBlockHeight(ctx.BlockHeight() + 1)
			if r := f.RunMsg(ctx, &crosschaintypes.MsgSendToExternal{ChainName: ch, Sender: user.Acc().String(), Dest: sim.ExtAddrN(ch, "dest", i), Amount: sdk.NewCoin("usdt", sdkmath.NewInt(1000)), BridgeFee: sdk.NewCoin("usdt", sdkmath.NewInt(int64(10+i)))}); !r.OK() {
				return failf("harness", "send to external: %v", r.Err)
			}
			r := f.RunMsg(ctx, &crosschaintypes.MsgRequestBatch{ChainName: ch, Sender: keys[0].Bridger.Acc().String(), Denom: usdt.Bridge[ch], MinimumFee: sdkmath.NewInt(1), FeeReceive: sim.ExtAddrN(ch, "feercv", 1), BaseFee: sdkmath.ZeroInt()})
			if !r.OK() {
				return failf("harness", "request batch: %v", r.Err)
			}
			nonces[i] = uint64(i + 1)
			if k.GetOutgoingTxBatch(ctx, usdt.Contracts[ch], nonces[i]) == nil {
				return failf("harness", "batch %d missing", nonces[i])
			}
		}
	default:
		for i := 0; i < 2; i++ {
			if r := f.RunMsg(ctx, &crosschaintypes.MsgBridgeCall{ChainName: ch, Sender: user.Acc().String(), Refund: user.Acc().String(), To: sim.ExtAddrN(ch, "to", i), Coins: sdk.NewCoins(sdk.NewCoin("usdt", sdkmath.NewInt(int64(100+i)))), Data: "0102", Memo: "", Value: sdkmath.ZeroInt()}); !r.OK() {
				return failf("harness", "bridge call: %v", r.Err)
			}
			nonces[i] = uint64(i + 1)
			if _, ok := k.GetOutgoingBridgeCallByNonce(ctx, nonces[i]); !ok {
				return failf("harness", "bridge call %d missing", nonces[i])
			}
		}
	}
	cps[0], cps[1] = refFor(gid, 0), refFor(gid, 1)

	named := keys[c.Oracle]
	other := keys[(c.Oracle+1)%len(keys)]
	stranger := sim.NewOracleKeys(ch, 77)
	pickKeys := func(s string) sim.OracleKeys {
		switch s {
		case "own":
			return named
		case "other":
			return other
		}
		return stranger
	}
	signer := pickKeys(c.SignKey)
	var digest []byte
	switch c.Checkpoint {
	case "right", "other-prefix":
		digest = cps[0]
	case "other-object":
		digest = cps[1]
	case "other-gravity":
		digest = refFor(gid+"x", 0)
	}
	prefix := "\x19Ethereum Signed Message:\n32"
	if (ch == "tron") != (c.Checkpoint == "other-prefix") {
		prefix = "\x19TRON Signed Message:\n32"
	}
	sig, err := crypto.Sign(crypto.Keccak256(append([]byte(prefix), digest...)), signer.Ext)
	if err != nil {
		return failf("harness", "sign: %v", err)
	}
	switch c.Surgery {
	case "malleate":
		s := new(big.Int).SetBytes(sig[32:64])
		s.Sub(secpN, s)
		copy(sig[32:64], make([]byte, 32))
		s.FillBytes(sig[32:64])
		sig[64] ^= 1
	case "v27":
		sig[64] += 27
	case "v2":
		sig[64] = 2
	case "trunc64":
		sig = sig[:64]
	case "len66":
		sig = append(sig, 0)
	case "empty":
		sig = nil
	case "flipbit":
		sig[10] ^= 0x40
	}
	extField := pickKeys(c.ExtField).ExtAddr
	bridger := pickKeys(c.Bridger).Bridger.Acc().String()
	nonce := nonces[0]
	if c.Missing {
		nonce = 99
	}
	var msg sdk.Msg
	sigHex := hex.EncodeToString(sig)
	switch c.Kind {
	case "oracleset":
		msg = &crosschaintypes.MsgOracleSetConfirm{ChainName: ch, Nonce: nonce, BridgerAddress: bridger, ExternalAddress: extField, Signature: sigHex}
	case "batch":
		msg = &crosschaintypes.MsgConfirmBatch{ChainName: ch, Nonce: nonce, TokenContract: usdt.Contracts[ch], BridgerAddress: bridger, ExternalAddress: extField, Signature: sigHex}
	default:
		msg = &crosschaintypes.MsgBridgeCallConfirm{ChainName: ch, Nonce: nonce, BridgerAddress: bridger, ExternalAddress: extField, Signature: sigHex}
	}
	// reference decision
	extOracleKeys, extIsOracle := map[string]sim.OracleKeys{named.ExtAddr: named, other.ExtAddr: other}[extField]
	sigValid := false
	if extIsOracle && len(sig) == 65 {
		s2 := append([]byte{}, sig...)
		if s2[64] == 27 || s2[64] == 28 {
			s2[64] -= 27
		}
		rightPrefix := "\x19Ethereum Signed Message:\n32"
		if ch == "tron" {
			rightPrefix = "\x19TRON Signed Message:\n32"
		}
		if pub, err := crypto.SigToPub(crypto.Keccak256(append([]byte(rightPrefix), cps[0]...)), s2); err == nil {
			rec20 := crypto.PubkeyToAddress(*pub)
			sigValid = crosschaintypes.ExternalAddrToStr(ch, rec20.Bytes()) == extOracleKeys.ExtAddr
		}
	}
	expect := !c.Missing && extIsOracle && sigValid && bridger == extOracleKeys.Bridger.Acc().String()
	countConfirms := func(cx sdk.Context) int {
		n := 0
		switch c.Kind {
		case "oracleset":
			k.IterateOracleSetConfirmByNonce(cx, nonces[0], func(*crosschaintypes.MsgOracleSetConfirm) bool { n++; return false })
		case "batch":
			k.IterateBatchConfirmByNonceAndTokenContract(cx, nonces[0], usdt.Contracts[ch], func(*crosschaintypes.MsgConfirmBatch) bool { n++; return false })
		default:
			k.IterBridgeCallConfirmByNonce(cx, nonces[0], func(*crosschaintypes.MsgBridgeCallConfirm) bool { n++; return false })
		}
		return n
	}
	before := countConfirms(ctx)
	r := f.RunMsg(ctx, msg)
	if r.Panic != "" {
		return failf("C12/confirm-panic/"+c.Kind, "confirm handler panicked: %s", trimStack(r.Panic))
	}
	class := fmt.Sprintf("%s key=%s cp=%s bridger=%s ext=%s surgery=%s missing=%v", c.Kind, c.SignKey, c.Checkpoint, c.Bridger, c.ExtField, c.Surgery, c.Missing)
	if r.OK() != expect {
		what := "accepted-invalid"
		if expect {
			what = "rejected-valid"
		}
		return failf("C12/confirm-"+what+"/"+c.Kind, "%s: handler ok=%v (err %v) but the reference says valid=%v [%s]", ch, r.OK(), r.Err, expect, class)
	}
	after := countConfirms(ctx)
	if want := before + b2i(expect); after != want {
		return failf("C12/confirm-count/"+c.Kind, "%d confirmations stored, expected %d [%s]", after, want, class)
	}
	if c.Twice {
		r2 := f.RunMsg(ctx, msg)
		if expect && r2.OK() {
			return failf("C12/duplicate-confirm-accepted/"+c.Kind, "the same confirmation was accepted twice [%s]", class)
		}
		if countConfirms(ctx) != after {
			return failf("C12/duplicate-confirm-stored/"+c.Kind, "a repeated confirmation changed the stored confirmations [%s]", class)
		}
	}
	allRight := c.SignKey == "own" && c.Checkpoint == "right" && c.Bridger == "own" && c.ExtField == "own" && (c.Surgery == "none" || c.Surgery == "v27") && !c.Missing
	rec.Case(ev.Sig("B", ch == "tron", class, c.Twice), !allRight, "B:"+c.Kind, fmt.Sprintf("B:accepted=%v", expect))
	if !allRight && rec.WantSample() {
		rec.Sample(c)
	}
	return nil
}

func b2i(b bool) int {
	if b {
		return 1
	}
	return 0
}

func init() { registerReplay("C12B", runC12B) }

func TestC12B(t *testing.T) {
	rapidDriveInto(t, "C12", "C12B", ev.Get("C12"), genC12B, runC12B)
}
