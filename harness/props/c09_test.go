package props

import (
	"bytes"
	"fmt"
	"math/big"
	"strings"
	"testing"

	sdkmath "cosmossdk.io/math"
	sdk "github.com/cosmos/cosmos-sdk/types"
	"github.com/ethereum/go-ethereum/common"
	"pgregory.net/rapid"

	"github.com/functionx/fx-core/v8/contract"
	fxtypes "github.com/functionx/fx-core/v8/types"
	crosschaintypes "github.com/functionx/fx-core/v8/x/crosschain/types"
	erc20types "github.com/functionx/fx-core/v8/x/erc20/types"
	stakingtypes "github.com/functionx/fx-core/v8/x/staking/types"

	"verif/harness/ev"
	"verif/harness/evmprog"
	"verif/harness/sim"
)

// ---------------------------------------------------------------------------------------------
// C09 — a precompile call is all-or-nothing with its EVM frame.
// Generated call trees over three interpreter contracts (direct calls, nested contracts, caught and
// propagated failures, reverting / invalid epilogues, repeated calls, every call kind) around all
// state-changing precompile methods; the gas limit is enumerated as a fault point.
// Metamorphic oracle: deleting from the tree every sub-tree the EVM dropped (per the outcome bits
// the interpreter returns) must not change the resulting state or logs; a failed transaction leaves
// the state of a reverted no-op transaction.
// ---------------------------------------------------------------------------------------------

type c09Node struct {
	Kind     string    `json:"kind"` // pre | token | sub
	Method   string    `json:"method,omitempty"`
	Variant  int       `json:"variant,omitempty"`
	Amt      int64     `json:"amt,omitempty"`
	Catch    bool      `json:"catch"`
	GasCap   uint64    `json:"gas_cap,omitempty"`
	CallKind int       `json:"call_kind,omitempty"`
	Sub      *c09Frame `json:"sub,omitempty"`
}

type c09Frame struct {
	Runner   int       `json:"runner"`
	Epilogue int       `json:"epilogue"`
	Ops      []c09Node `json:"ops"`
}

type c09Case struct {
	Root        c09Frame `json:"root"`
	DisablePair bool     `json:"disable_pair"`        // governance disables the bridged token's conversion after the set-up: refunds panic part-way
	GasPoints   []int    `json:"gas_points_permille"` // of the gas used with ample gas; plus absolute specials below
	Absolute    []uint64 `json:"gas_points_absolute"`
}

var c09Methods = []string{
	"staking.delegateV2", "staking.undelegateV2", "staking.redelegateV2", "staking.withdraw", "staking.approveShares", "staking.transferShares", "staking.transferFromShares",
	"crosschain.crossChain", "crosschain.bridgeCall", "crosschain.cancelSendToExternal", "crosschain.increaseBridgeFee", "crosschain.executeClaim",
}

func genC09Frame(t *rapid.T, depth, runner int) c09Frame {
	fr := c09Frame{Runner: runner, Epilogue: rapid.SampledFrom([]int{0, 0, 0, 0, 1, 2}).Draw(t, "epilogue")}
	maxOps := 4
	if thorough() {
		maxOps = 6
	}
	n := rapid.IntRange(1, maxOps).Draw(t, "nops")
	for i := 0; i < n; i++ {
		kinds := []string{"pre", "pre", "pre", "token"}
		if depth < 2 {
			kinds = append(kinds, "sub", "sub")
		}
		nd := c09Node{Kind: rapid.SampledFrom(kinds).Draw(t, "kind"), Catch: rapid.IntRange(0, 2).Draw(t, "catch") != 0}
		nd.GasCap = rapid.SampledFrom([]uint64{0, 0, 0, 30_000, 60_000, 120_000, 400_000}).Draw(t, "gascap")
		nd.Amt = rapid.Int64Range(1, 300).Draw(t, "amt")
		switch nd.Kind {
		case "pre":
			nd.Method = rapid.SampledFrom(c09Methods).Draw(t, "method")
			nd.Variant = rapid.SampledFrom([]int{0, 0, 0, 0, 1, 2, 3}).Draw(t, "variant") // 1: too large amount (fails), 2: malformed argument (fails), 3: executeClaim of the parked failure result
			nd.CallKind = rapid.SampledFrom([]int{0, 0, 0, 0, 0, 1, 2, 3}).Draw(t, "callkind")
		case "sub":
			sub := genC09Frame(t, depth+1, (runner+1+rapid.IntRange(0, 1).Draw(t, "subrunner"))%3)
			nd.Sub = &sub
		}
		fr.Ops = append(fr.Ops, nd)
	}
	return fr
}

func genC09(t *rapid.T) c09Case {
	c := c09Case{Root: genC09Frame(t, 0, 0)}
	c.Root.Epilogue = rapid.SampledFrom([]int{0, 0, 0, 1}).Draw(t, "rootepi")
	c.DisablePair = rapid.SampledFrom([]bool{false, false, false, false, true}).Draw(t, "disablePair")
	if c.DisablePair {
		// the refund inside executeClaim(parked failure result) now panics part-way: put one such call into the
		// root frame or into its first sub-frame, caught or not
		nd := c09Node{Kind: "pre", Method: "crosschain.executeClaim", Variant: 3, Amt: 1, Catch: rapid.Bool().Draw(t, "pcatch")}
		fr := &c.Root
		if rapid.Bool().Draw(t, "pdeep") {
			for i := range c.Root.Ops {
				if c.Root.Ops[i].Sub != nil {
					fr = c.Root.Ops[i].Sub
					break
				}
			}
		}
		at := rapid.IntRange(0, len(fr.Ops)).Draw(t, "pat")
		fr.Ops = append(fr.Ops[:at], append([]c09Node{nd}, fr.Ops[at:]...)...)
	}
	np := 8
	if thorough() {
		np = 30
	}
	for i := 0; i < np; i++ {
		c.GasPoints = append(c.GasPoints, rapid.IntRange(0, 1050).Draw(t, "permille"))
	}
	c.Absolute = []uint64{0, 20_999, 21_000, 25_000, 53_000}
	return c
}

type c09Env struct {
	f       *sim.Fixture
	runners [3]common.Address
	poolIDs [3]uint64
	claims  [3]uint64
	results [3]uint64 // parked failure results of an outgoing bridge call of each runner
}

// c09Setup prepares, on a branch of the base state, three interpreter contracts with FX, bridged
// ERC-20, delegations, mutual share allowances, approvals to the crosschain precompile, one queued
// withdrawal each and one parked deposit each.
func c09Setup(f *sim.Fixture, ctx sdk.Context) (*c09Env, *Failure) {
	e := &c09Env{f: f}
	usdt := f.Token("USDT")
	u := f.Users[0]
	val0 := f.ValKeys[0].Val()
	k := f.Keeper("eth")
	for i := range e.runners {
		e.runners[i] = sim.HexAddrN("c09-contract", i)
		f.InstallRunner(ctx, e.runners[i])
		f.Mint(ctx, e.runners[i].Bytes(), sim.FxCoin(50_000))
		tr, _ := contract.GetFIP20().ABI.Pack("transfer", e.runners[i], big.NewInt(1_000_000))
		if !f.EthTx(ctx, u, &usdt.ERC20, nil, tr, 500_000).Success() {
			return nil, failf("harness", "fund runner")
		}
	}
	for i, r := range e.runners {
		ap, _ := contract.GetFIP20().ABI.Pack("approve", sim.CrosschainAddr, new(big.Int).Lsh(big.NewInt(1), 200))
		del, _ := stakingtypes.GetABI().Pack("delegateV2", val0.String(), sim.Fx(3000).BigInt())
		as1, _ := stakingtypes.GetABI().Pack("approveShares", val0.String(), e.runners[(i+1)%3], sim.Fx(1000).BigInt())
		as2, _ := stakingtypes.GetABI().Pack("approveShares", val0.String(), e.runners[(i+2)%3], sim.Fx(1000).BigInt())
		cc, _ := crosschaintypes.GetABI().Pack("crossChain", usdt.ERC20, sim.ExtAddrN("eth", "c09dest", i), big.NewInt(1000), big.NewInt(10), fxtypes.MustStrToByte32("eth"), "")
		s := evmprog.Script{Calls: []evmprog.Call{{Target: usdt.ERC20, Data: ap}, {Target: sim.StakingAddr, Data: del}, {Target: sim.StakingAddr, Data: as1}, {Target: sim.StakingAddr, Data: as2}, {Target: sim.CrosschainAddr, Data: cc}}}
		res, outs := f.RunScript(ctx, u, r, s, nil, 5_000_000)
		if !res.Success() {
			return nil, failf("harness", "runner setup failed: %v %v", res.Err, outs)
		}
		acc := sdk.AccAddress(r.Bytes()).String()
		for _, tx := range k.GetUnbatchedTransactions(ctx) {
			if tx.Sender == acc {
				e.poolIDs[i] = tx.Id
			}
		}
		n, err := f.Observe(ctx, "eth", &crosschaintypes.MsgSendToFxClaim{TokenContract: usdt.Contracts["eth"], Amount: sdkmath.NewInt(int64(500 + i)), Sender: sim.ExtAddrN("eth", "c09ext", i), Receiver: acc, TargetIbc: fmt.Sprintf("%x", "erc20")}, 9100+uint64(i))
		if err != nil {
			return nil, failf("harness", "observe: %v", err)
		}
		e.claims[i] = n
		// an outgoing bridge call of this runner whose failure the external chain has reported (parked)
		before := map[uint64]bool{}
		k.IterateOutgoingBridgeCalls(ctx, func(oc *crosschaintypes.OutgoingBridgeCall) bool { before[oc.Nonce] = true; return false })
		bc, _ := crosschaintypes.GetABI().Pack("bridgeCall", "eth", r, []common.Address{usdt.ERC20}, []*big.Int{big.NewInt(700)}, f.Users[2].Hex(), []byte{9}, big.NewInt(0), []byte{})
		if res, outs := f.RunScript(ctx, u, r, evmprog.Script{Calls: []evmprog.Call{{Target: sim.CrosschainAddr, Data: bc}}}, nil, 5_000_000); !res.Success() {
			return nil, failf("harness", "runner bridge call failed: %v %v", res.Err, outs)
		}
		var callNonce uint64
		k.IterateOutgoingBridgeCalls(ctx, func(oc *crosschaintypes.OutgoingBridgeCall) bool {
			if !before[oc.Nonce] {
				callNonce = oc.Nonce
			}
			return false
		})
		rn, err := f.Observe(ctx, "eth", &crosschaintypes.MsgBridgeCallResultClaim{Nonce: callNonce, TxOrigin: sim.ExtAddrN("eth", "c09relayer", i), Success: false, Cause: ""}, 9200+uint64(i))
		if err != nil {
			return nil, failf("harness", "observe result: %v", err)
		}
		e.results[i] = rn
	}
	return e, nil
}

func (e *c09Env) callData(nd c09Node, self int) (common.Address, []byte, string) {
	f := e.f
	usdt := f.Token("USDT")
	val0, val1 := f.ValKeys[0].Val().String(), f.ValKeys[1].Val().String()
	amtFX := sim.Fx(nd.Amt).BigInt()
	amt := big.NewInt(nd.Amt)
	if nd.Variant == 1 {
		amtFX = sim.Fx(10_000_000).BigInt()
		amt = new(big.Int).Lsh(big.NewInt(1), 120)
	}
	other := e.runners[(self+1)%3]
	if nd.Kind == "token" {
		d, _ := contract.GetFIP20().ABI.Pack("transfer", f.Users[2].Hex(), amt)
		return usdt.ERC20, d, fmt.Sprintf("usdt.transfer(user2,%s)", amt)
	}
	var target common.Address
	var name string
	var args []interface{}
	switch nd.Method {
	case "staking.delegateV2":
		args = []interface{}{val0, amtFX}
	case "staking.undelegateV2":
		args = []interface{}{val0, amtFX}
	case "staking.redelegateV2":
		args = []interface{}{val0, val1, amtFX}
	case "staking.withdraw":
		args = []interface{}{val0}
	case "staking.approveShares":
		args = []interface{}{val0, other, amtFX}
	case "staking.transferShares":
		args = []interface{}{val0, other, amtFX}
	case "staking.transferFromShares":
		args = []interface{}{val0, other, f.Users[2].Hex(), amtFX}
	case "crosschain.crossChain":
		args = []interface{}{usdt.ERC20, sim.ExtAddrN("eth", "c09dest", 7), amt, big.NewInt(3), fxtypes.MustStrToByte32("eth"), ""}
	case "crosschain.bridgeCall":
		args = []interface{}{"eth", e.runners[self], []common.Address{usdt.ERC20}, []*big.Int{amt}, f.Users[2].Hex(), []byte{9}, big.NewInt(0), []byte{}}
	case "crosschain.cancelSendToExternal":
		args = []interface{}{"eth", new(big.Int).SetUint64(e.poolIDs[self])}
	case "crosschain.increaseBridgeFee":
		args = []interface{}{"eth", new(big.Int).SetUint64(e.poolIDs[self]), usdt.ERC20, amt}
	case "crosschain.executeClaim":
		args = []interface{}{"eth", new(big.Int).SetUint64(e.claims[self])}
		if nd.Variant == 3 {
			args = []interface{}{"eth", new(big.Int).SetUint64(e.results[self])}
		}
	}
	if nd.Variant == 2 {
		switch v := args[0].(type) {
		case string:
			args[0] = v + "x"
		}
	}
	var id []byte
	var packed []byte
	var err error
	if nd.Method[:7] == "staking" {
		target = sim.StakingAddr
		m := stakingtypes.GetABI().Methods[nd.Method[8:]]
		id = m.ID
		packed, err = m.Inputs.Pack(args...)
		name = nd.Method
	} else {
		target = sim.CrosschainAddr
		m := crosschaintypes.GetABI().Methods[nd.Method[11:]]
		id = m.ID
		packed, err = m.Inputs.Pack(args...)
		name = nd.Method
	}
	if err != nil {
		panic(fmt.Sprintf("pack %s: %v", nd.Method, err))
	}
	return target, append(append([]byte{}, id...), packed...), fmt.Sprintf("%s(variant %d, amt %d)", name, nd.Variant, nd.Amt)
}

func (e *c09Env) script(fr c09Frame) evmprog.Script {
	s := evmprog.Script{Epilogue: fr.Epilogue}
	for _, nd := range fr.Ops {
		c := evmprog.Call{Catch: nd.Catch, Gas: nd.GasCap}
		if nd.Kind == "sub" {
			sub := e.script(*nd.Sub)
			c.Target = e.runners[nd.Sub.Runner%3]
			c.Sub = &sub
			c.Note = fmt.Sprintf("contract %d", nd.Sub.Runner%3)
		} else {
			c.Target, c.Data, c.Note = e.callData(nd, fr.Runner%3)
			c.Kind = nd.CallKind
		}
		s.Calls = append(s.Calls, c)
	}
	return s
}

// keptPrecompile reports whether the outcome tree contains a precompile call that succeeded inside a frame that was
// later dropped, i.e. the non-trivial situation of this property.
func c09DroppedSuccess(s evmprog.Script, outs []evmprog.Outcome, kept bool) bool {
	for i, c := range s.Calls {
		if i >= len(outs) {
			break
		}
		isPre := c.Target == sim.StakingAddr || c.Target == sim.CrosschainAddr
		if isPre && outs[i].Success && !kept {
			return true
		}
		if c.Sub != nil {
			if c09DroppedSuccess(*c.Sub, outs[i].Sub, kept && outs[i].Success) {
				return true
			}
		}
	}
	return false
}

func c09Logs(r sim.EthTxResult) string {
	if r.Resp == nil {
		return ""
	}
	var b bytes.Buffer
	for _, l := range r.Resp.Logs {
		fmt.Fprintf(&b, "%s %v %x\n", l.Address, l.Topics, l.Data)
	}
	return b.String()
}

func runC09(c c09Case, rec *ev.Recorder) *Failure {
	f := base()
	ctx, _ := f.Ctx.CacheContext()
	e, fl := c09Setup(f, ctx)
	if fl != nil {
		return fl
	}
	if c.DisablePair {
		if r := f.RunMsg(ctx, &erc20types.MsgToggleTokenConversion{Authority: sim.GovAddr.String(), Token: f.Token("USDT").Base}); !r.OK() {
			return failf("harness", "toggle: %v", r.Err)
		}
	}
	u := f.Users[1]
	s := e.script(c.Root)
	if len(s.Encode()) > evmprog.MaxScript {
		// the interpreter copies its script to memory below its output buffer: a larger script would overlap it
		rec.Case("", false, "oversize-script-skipped")
		return nil
	}
	root := e.runners[c.Root.Runner%3]

	// the state a failed transaction must leave: the same sender's reverted no-op transaction
	failCtx, _ := ctx.CacheContext()
	f.RunScript(failCtx, u, root, evmprog.Script{Epilogue: evmprog.EpiRevert}, nil, 3_000_000)
	failDump := f.DumpStores(failCtx)

	panicked := 0
	check := func(gas uint64, label string) (*Failure, sim.EthTxResult, []evmprog.Outcome) {
		runCtx, _ := ctx.CacheContext()
		r, outs := f.RunScript(runCtx, u, root, s, nil, gas)
		if r.Panic != "" {
			// a native action that panics aborts the whole transaction (baseapp recovers it and discards the
			// message's writes): nothing to compare, and not this property's subject
			panicked++
			return nil, r, outs
		}
		if r.Err != nil {
			// rejected before execution (e.g. intrinsic gas): nothing may change at all
			if d := sim.DiffString(sim.Diff(f.DumpStores(ctx), f.DumpStores(runCtx)), 6); d != "" {
				return failf("C09/rejected-tx-changed-state", "gas %d: tx rejected (%v) but state changed:\n%s", gas, r.Err, d), r, outs
			}
			return nil, r, outs
		}
		got := f.DumpStores(runCtx)
		if !r.Success() {
			if d := sim.DiffString(sim.Diff(failDump, got), 8); d != "" {
				return failf("C09/failed-tx-left-effects", "%s gas %d: the transaction failed (%s) but the state differs from a reverted no-op transaction:\n%s\ntree:\n%s", label, gas, r.Resp.VmError, d, s.String()), r, outs
			}
			if len(r.Resp.Logs) != 0 {
				return failf("C09/failed-tx-left-logs", "%s gas %d: the transaction failed but kept %d logs", label, gas, len(r.Resp.Logs)), r, outs
			}
			return nil, r, outs
		}
		// succeeded: the projection (dropped sub-trees deleted) must give the same state and logs
		p := evmprog.Project(s, outs, true)
		projCtx, _ := ctx.CacheContext()
		pr, pouts := f.RunScript(projCtx, u, root, p, nil, 8_000_000)
		if !pr.Success() {
			return failf("C09/projection-fails", "%s gas %d: the kept part of the tree does not succeed on its own (%v %v)\ntree:\n%s\nkept part:\n%s", label, gas, pr.Err, respErr(pr), s.String(), p.String()), r, outs
		}
		for i := range pouts {
			if !pouts[i].Success {
				return failf("C09/projection-op-fails", "%s gas %d: op %d of the kept part fails when run alone\ntree:\n%s\nkept part:\n%s", label, gas, i, s.String(), p.String()), r, outs
			}
		}
		if entries := sim.Diff(f.DumpStores(projCtx), got); len(entries) != 0 {
			d := sim.DiffString(entries, 10)
			// A difference confined to the storage of the token that crosschain precompile calls convert, in a
			// transaction that contains such calls, is the nested-EVM overlap recorded under C08: conversions run
			// in a nested EVM execution on the Cosmos-side state while the calling EVM still holds slots of the
			// token it touched earlier (here: in a frame that was dropped).
			tokenOnly := c09Has(c.Root, "pre", "crosschain.")
			tokenPrefix := append([]byte{0x02}, f.Token("USDT").ERC20.Bytes()...)
			for _, en := range entries {
				if en.Store != "evm" || !bytes.HasPrefix(en.Key, tokenPrefix) {
					tokenOnly = false
				}
			}
			if tokenOnly {
				return failf("C09/nested-evm-overlap/token-storage-only", "%s gas %d: token storage differs between the transaction and its kept frames run alone (kept-only -> actual):\n%s\ntree:\n%s\nkept part:\n%s", label, gas, d, s.String(), p.String()), r, outs
			}
			return failf("C09/dropped-frame-left-effects", "%s gas %d: the state after the transaction differs from the state after running only the frames the EVM kept (kept-only -> actual):\n%s\ntree:\n%s\nkept part:\n%s", label, gas, d, s.String(), p.String()), r, outs
		}
		if a, b := c09Logs(r), c09Logs(pr); a != b {
			return failf("C09/dropped-frame-left-logs", "%s gas %d: logs differ from those of the kept frames:\n--- actual\n%s--- kept only\n%s", label, gas, a, b), r, outs
		}
		return nil, r, outs
	}
	fl, r0, outs0 := check(8_000_000, "ample")
	tolerate := func(fl *Failure) *Failure {
		if fl != nil && fl.Sig == "C09/nested-evm-overlap/token-storage-only" && isKnown(fl.Sig) {
			rec.KnownFinding(fl.Sig, fl.Msg)
			rec.Exclude("difference confined to the converted token's storage in a transaction with crosschain precompile calls (known finding)")
			return nil
		}
		return fl
	}
	fl = tolerate(fl)
	if fl != nil {
		return fl
	}
	used := uint64(0)
	if r0.Resp != nil {
		used = r0.Resp.GasUsed
	}
	cut := 0
	for _, pm := range c.GasPoints {
		g := used * uint64(pm) / 1000
		fl, r, _ := check(g, "fault")
		if fl = tolerate(fl); fl != nil {
			return fl
		} else if r.Resp != nil && !r.Success() {
			cut++
		}
	}
	for _, g := range c.Absolute {
		fl, _, _ := check(g, "fault")
		if fl = tolerate(fl); fl != nil {
			return fl
		}
	}
	dropped := c09DroppedSuccess(s, outs0, r0.Success())
	nontrivial := dropped || cut > 0
	shape := s.String()
	rec.Label("gas-points", len(c.GasPoints)+len(c.Absolute))
	rec.Label("gas-points-failing", cut)
	labels := []string{fmt.Sprintf("root-success:%v", r0.Success())}
	if panicked > 0 {
		labels = append(labels, "transaction-aborted-by-panic")
	}
	if c.DisablePair {
		labels = append(labels, "pair-disabled")
	}
	if dropped {
		labels = append(labels, "precompile-success-in-dropped-frame")
	}
	rec.Case(ev.Sig(shape), nontrivial, labels...)
	if nontrivial && rec.WantSample() {
		rec.Sample(map[string]interface{}{"tree": shape, "gas_used_ample": used, "case": c})
	}
	return nil
}

// c09Has reports whether the tree contains a node of the kind (and, for precompile calls, method prefix).
func c09Has(fr c09Frame, kind, methodPrefix string) bool {
	for _, nd := range fr.Ops {
		if nd.Kind == kind && strings.HasPrefix(nd.Method, methodPrefix) {
			return true
		}
		if nd.Sub != nil && c09Has(*nd.Sub, kind, methodPrefix) {
			return true
		}
	}
	return false
}

func respErr(r sim.EthTxResult) string {
	if r.Resp != nil {
		return r.Resp.VmError
	}
	return ""
}

func init() { registerReplay("C09", runC09) }

func TestC09(t *testing.T) { drive(t, "C09", genC09, runC09) }
