package props

import (
	"fmt"
	"math/big"
	"sort"
	"strings"
	"testing"

	sdkmath "cosmossdk.io/math"
	abci "github.com/cometbft/cometbft/abci/types"
	sdk "github.com/cosmos/cosmos-sdk/types"
	"github.com/ethereum/go-ethereum/common"
	"pgregory.net/rapid"

	"github.com/functionx/fx-core/v8/contract"
	fxtypes "github.com/functionx/fx-core/v8/types"
	crosschaintypes "github.com/functionx/fx-core/v8/x/crosschain/types"
	fxgovtypes "github.com/functionx/fx-core/v8/x/gov/types"
	stakingtypes "github.com/functionx/fx-core/v8/x/staking/types"

	"verif/harness/ev"
	"verif/harness/evmprog"
	"verif/harness/sim"
)

// ---------------------------------------------------------------------------------------------
// C10 — precompiles act only for their direct caller, only in a writable call context, only if
// enabled. One precompile call per case, by an EOA, by a contract, or by a contract that a victim
// (who holds assets and allowances) was made to call; every call kind; arguments aimed at victims;
// every governance switch shape.
// ---------------------------------------------------------------------------------------------

type c10Case struct {
	Actor     string `json:"actor"`     // eoa | contract | contract-via-victim
	CallKind  int    `json:"call_kind"` // 0 CALL 1 STATICCALL 2 DELEGATECALL 3 CALLCODE (contract actors)
	Method    string `json:"method"`
	Variant   int    `json:"variant"`   // argument variant (victim targeting)
	Switch    string `json:"switch"`    // none | addr | method | method-case | unrelated
	Allowance string `json:"allowance"` // none | exact | short | ample | revoked | lowered
	Amt       int64  `json:"amt"`
	// further switch entries that do not cover the call (other methods of the same precompile,
	// the other precompile, unknown addresses); the covering entry is inserted at PadPos
	Pads   []string `json:"pads"`
	PadPos int      `json:"pad_pos"`
}

var c10Methods = []string{
	"staking.delegateV2", "staking.undelegateV2", "staking.redelegateV2", "staking.withdraw", "staking.approveShares", "staking.transferShares", "staking.transferFromShares",
	"crosschain.crossChain", "crosschain.bridgeCall", "crosschain.cancelSendToExternal", "crosschain.increaseBridgeFee", "crosschain.executeClaim",
}

func genC10(t *rapid.T) c10Case {
	return c10Case{
		Actor:     rapid.SampledFrom([]string{"eoa", "contract", "contract", "contract-via-victim"}).Draw(t, "actor"),
		CallKind:  rapid.SampledFrom([]int{0, 0, 0, 1, 2, 3}).Draw(t, "kind"),
		Method:    rapid.SampledFrom(c10Methods).Draw(t, "method"),
		Variant:   rapid.IntRange(0, 3).Draw(t, "variant"),
		Switch:    rapid.SampledFrom([]string{"none", "none", "none", "addr", "method", "method-case", "unrelated"}).Draw(t, "switch"),
		Allowance: rapid.SampledFrom([]string{"none", "exact", "short", "ample", "revoked", "lowered"}).Draw(t, "allowance"),
		Amt:       rapid.Int64Range(1, 500).Draw(t, "amt"),
		Pads:      rapid.SliceOfN(rapid.SampledFrom([]string{"same-other-method", "same-other-method-2", "other-addr", "other-method", "unknown"}), 0, 3).Draw(t, "pads"),
		PadPos:    rapid.IntRange(0, 3).Draw(t, "padPos"),
	}
}

type c10Portfolio struct {
	Bank    map[string]*big.Int
	ERC20   map[string]*big.Int
	Shares  map[string]sdkmath.LegacyDec
	Rewards map[string]sdkmath.Int
	Unbond  map[string]sdkmath.Int
	PoolTxs map[string][2]sdkmath.Int // chain/id -> amount, fee
	Calls   map[string]bool
}

func c10Snapshot(f *sim.Fixture, e *c11Env, ctx sdk.Context, who common.Address) c10Portfolio {
	p := c10Portfolio{Bank: map[string]*big.Int{}, ERC20: map[string]*big.Int{}, Shares: map[string]sdkmath.LegacyDec{}, Rewards: map[string]sdkmath.Int{}, Unbond: map[string]sdkmath.Int{}, PoolTxs: map[string][2]sdkmath.Int{}, Calls: map[string]bool{}}
	for _, c := range f.App.BankKeeper.GetAllBalances(ctx, who.Bytes()) {
		p.Bank[c.Denom] = c.Amount.BigInt()
	}
	for _, t := range f.Tokens {
		p.ERC20[t.Name] = f.BalanceOf(ctx, t.ERC20, who)
	}
	for _, vk := range f.ValKeys {
		v := vk.Val()
		p.Shares[v.String()] = e.shares(ctx, who, v)
		p.Rewards[v.String()] = e.pending(ctx, who, v)
		tot := sdkmath.ZeroInt()
		if ubd, err := f.App.StakingKeeper.GetUnbondingDelegation(ctx, who.Bytes(), v); err == nil {
			for _, en := range ubd.Entries {
				tot = tot.Add(en.Balance)
			}
		}
		p.Unbond[v.String()] = tot
	}
	acc := sdk.AccAddress(who.Bytes()).String()
	for _, ch := range baseChains {
		k := f.Keeper(ch)
		for _, tx := range k.GetUnbatchedTransactions(ctx) {
			if tx.Sender == acc {
				p.PoolTxs[fmt.Sprintf("%s/%d", ch, tx.Id)] = [2]sdkmath.Int{tx.Token.Amount, tx.Fee.Amount}
			}
		}
		ext := crosschaintypes.ExternalAddrToStr(ch, who.Bytes())
		k.IterateOutgoingBridgeCalls(ctx, func(oc *crosschaintypes.OutgoingBridgeCall) bool {
			if oc.Sender == ext {
				p.Calls[fmt.Sprintf("%s/%d", ch, oc.Nonce)] = true
			}
			return false
		})
	}
	return p
}

// c10Reduced lists the components of before that are smaller / missing in after.
func c10Reduced(before, after c10Portfolio) []string {
	var out []string
	fxB, fxA := new(big.Int), new(big.Int)
	if b := before.Bank[fxtypes.DefaultDenom]; b != nil {
		fxB.Set(b)
	}
	if a := after.Bank[fxtypes.DefaultDenom]; a != nil {
		fxA.Set(a)
	}
	for v, r := range before.Rewards {
		fxB.Add(fxB, r.BigInt())
		fxA.Add(fxA, after.Rewards[v].BigInt())
	}
	if fxA.Cmp(fxB) < 0 {
		out = append(out, fmt.Sprintf("FX balance + pending rewards %s -> %s", fxB, fxA))
	}
	for d, b := range before.Bank {
		if d == fxtypes.DefaultDenom {
			continue
		}
		if a := after.Bank[d]; a == nil || a.Cmp(b) < 0 {
			out = append(out, fmt.Sprintf("bank %s %s -> %v", d, b, a))
		}
	}
	for n, b := range before.ERC20 {
		if a := after.ERC20[n]; a.Cmp(b) < 0 {
			out = append(out, fmt.Sprintf("erc20 %s %s -> %s", n, b, a))
		}
	}
	for v, b := range before.Shares {
		if after.Shares[v].LT(b) {
			out = append(out, fmt.Sprintf("shares@%s %s -> %s", v[len(v)-6:], b, after.Shares[v]))
		}
	}
	for v, b := range before.Unbond {
		if after.Unbond[v].LT(b) {
			out = append(out, fmt.Sprintf("unbonding@%s %s -> %s", v[len(v)-6:], b, after.Unbond[v]))
		}
	}
	for id, b := range before.PoolTxs {
		a, ok := after.PoolTxs[id]
		if !ok || !a[0].Equal(b[0]) || a[1].LT(b[1]) {
			out = append(out, fmt.Sprintf("queued withdrawal %s %v -> %v (present=%v)", id, b, a, ok))
		}
	}
	for id := range before.Calls {
		if !after.Calls[id] {
			out = append(out, "outgoing bridge call "+id+" removed")
		}
	}
	sort.Strings(out)
	return out
}

func runC10(c c10Case, rec *ev.Recorder) *Failure {
	f := base()
	ctx, _ := f.Ctx.CacheContext()
	e := &c11Env{f: f, runner: sim.HexAddrN("c10-contract", 1)}
	R := e.runner
	f.InstallRunner(ctx, R)
	f.Mint(ctx, R.Bytes(), sim.FxCoin(100_000))
	val0, val1 := f.ValKeys[0].Val(), f.ValKeys[1].Val()
	usdt := f.Token("USDT")
	attacker, victim, victim2 := f.Users[0], f.Users[1], f.Users[2]
	must := func(ok bool, what string) *Failure {
		if !ok {
			return failf("harness", "setup: %s", what)
		}
		return nil
	}
	// --- setup: delegations and rewards for the victims and the contract, a queued withdrawal of the victim
	for i := 1; i <= 3; i++ {
		if ok, _ := e.call(ctx, i, "delegateV2", val0.String(), sim.Fx(2000).BigInt()); !ok {
			return failf("harness", "delegate %d", i)
		}
	}
	if fl := must(f.RunMsg(ctx, &crosschaintypes.MsgSendToExternal{ChainName: "eth", Sender: victim.Acc().String(), Dest: sim.ExtAddrN("eth", "dest", 1), Amount: sdk.NewCoin("usdt", sdkmath.NewInt(1000)), BridgeFee: sdk.NewCoin("usdt", sdkmath.NewInt(10))}).OK(), "victim send"); fl != nil {
		return fl
	}
	victimTx := uint64(0)
	for _, tx := range f.Keeper("eth").GetUnbatchedTransactions(ctx) {
		if tx.Sender == victim.Acc().String() {
			victimTx = tx.Id
		}
	}
	// give the contract some bridged ERC-20 and let it approve the crosschain precompile
	tr, _ := contract.GetFIP20().ABI.Pack("transfer", R, big.NewInt(100_000))
	if fl := must(f.EthTx(ctx, attacker, &usdt.ERC20, nil, tr, 500_000).Success(), "fund contract"); fl != nil {
		return fl
	}
	ap, _ := contract.GetFIP20().ABI.Pack("approve", sim.CrosschainAddr, new(big.Int).Lsh(big.NewInt(1), 200))
	if r, _ := f.RunScript(ctx, attacker, R, evmprog.Script{Calls: []evmprog.Call{{Target: usdt.ERC20, Data: ap}}}, nil, 1_000_000); !r.Success() {
		return failf("harness", "contract approve")
	}
	// a parked deposit anybody may execute
	nonce, err := f.Observe(ctx, "eth", &crosschaintypes.MsgSendToFxClaim{TokenContract: usdt.Contracts["eth"], Amount: sdkmath.NewInt(777), Sender: sim.ExtAddrN("eth", "x", 1), Receiver: victim2.Acc().String()}, 9000)
	if err != nil {
		return failf("harness", "observe: %v", err)
	}
	// rewards accrue
	if err := f.App.BankKeeper.MintCoins(ctx, "mint", sdk.NewCoins(sim.FxCoin(500))); err != nil {
		return failf("harness", "mint: %v", err)
	}
	_ = f.App.BankKeeper.SendCoinsFromModuleToModule(ctx, "mint", "fee_collector", sdk.NewCoins(sim.FxCoin(500)))
	var votes []abci.VoteInfo
	total := int64(0)
	for i := range f.Cons {
		v, err := f.App.StakingKeeper.GetValidatorByConsAddr(ctx, sdk.ConsAddress(f.Cons[i].PubKey().Address()))
		if err == nil {
			p := v.ConsensusPower(sdk.DefaultPowerReduction)
			total += p
			votes = append(votes, abci.VoteInfo{Validator: abci.Validator{Address: f.Cons[i].PubKey().Address(), Power: p}})
		}
	}
	ctx = ctx.WithBlockHeight(ctx.BlockHeight() + 1)
	if err := f.App.DistrKeeper.AllocateTokens(ctx, total, votes); err != nil {
		return failf("harness", "allocate: %v", err)
	}
	// direct caller of the precompile
	direct := attacker.Hex()
	txSender := attacker
	if c.Actor != "eoa" {
		direct = R
	}
	if c.Actor == "contract-via-victim" {
		txSender = victim
	}
	// allowance of the victim towards the direct caller (for transferFromShares)
	shares := sim.Fx(c.Amt).BigInt()
	granted := new(big.Int) // what the victim's last approval says (the model's allowance, not the stored one)
	approve := func(x *big.Int) {
		e.call(ctx, 1, "approveShares", val0.String(), direct, x)
		granted = x
	}
	switch c.Allowance {
	case "exact":
		approve(shares)
	case "short":
		approve(new(big.Int).Sub(shares, big.NewInt(1)))
	case "ample":
		approve(new(big.Int).Mul(shares, big.NewInt(3)))
	case "revoked": // granted, then taken back
		approve(new(big.Int).Mul(shares, big.NewInt(3)))
		approve(new(big.Int))
	case "lowered": // granted, then replaced by less than the request
		approve(new(big.Int).Mul(shares, big.NewInt(3)))
		approve(new(big.Int).Sub(shares, big.NewInt(1)))
	}
	// governance switch
	parts := strings.SplitN(c.Method, ".", 2)
	target, abiM := sim.StakingAddr, stakingtypes.GetABI().Methods[parts[1]]
	if parts[0] == "crosschain" {
		target, abiM = sim.CrosschainAddr, crosschaintypes.GetABI().Methods[parts[1]]
	}
	var disabled []string
	switch c.Switch {
	case "addr":
		disabled = []string{strings.ToUpper(target.Hex()[2:])}
		disabled[0] = "0x" + disabled[0]
	case "method":
		disabled = []string{fmt.Sprintf("%s/%x", strings.ToLower(target.Hex()), abiM.ID)}
	case "method-case":
		disabled = []string{fmt.Sprintf("%s/%s", target.Hex(), strings.ToUpper(fmt.Sprintf("%x", abiM.ID)))}
	case "unrelated":
		disabled = []string{"0x0000000000000000000000000000000000009999", fmt.Sprintf("%s/%s", strings.ToLower(target.Hex()), "deadbeef")}
	}
	if len(c.Pads) > 0 {
		other, otherABI := sim.CrosschainAddr, crosschaintypes.GetABI()
		sameABI := stakingtypes.GetABI()
		if parts[0] == "crosschain" {
			other, otherABI, sameABI = sim.StakingAddr, stakingtypes.GetABI(), crosschaintypes.GetABI()
		}
		var sameOthers, otherMethods []string
		for name, m := range sameABI.Methods {
			if name != parts[1] {
				sameOthers = append(sameOthers, fmt.Sprintf("%s/%x", strings.ToLower(target.Hex()), m.ID))
			}
		}
		for _, m := range otherABI.Methods {
			otherMethods = append(otherMethods, fmt.Sprintf("%s/%x", strings.ToLower(other.Hex()), m.ID))
		}
		sortStrings(sameOthers)
		sortStrings(otherMethods)
		var pads []string
		seen := map[string]bool{}
		for i, p := range c.Pads {
			var e string
			switch p {
			case "same-other-method":
				e = sameOthers[(c.Variant+i)%len(sameOthers)]
			case "same-other-method-2":
				e = sameOthers[(c.Variant+i+3)%len(sameOthers)]
			case "other-addr":
				e = strings.ToLower(other.Hex())
			case "other-method":
				e = otherMethods[(c.Variant+i)%len(otherMethods)]
			default:
				e = fmt.Sprintf("0x00000000000000000000000000000000000077%02x", i)
			}
			if !seen[e] {
				seen[e] = true
				pads = append(pads, e)
			}
		}
		pos := c.PadPos
		if pos > len(pads) {
			pos = len(pads)
		}
		merged := append([]string{}, pads[:pos]...)
		for _, d := range disabled {
			if !seen[d] {
				merged = append(merged, d)
			}
		}
		disabled = append(merged, pads[pos:]...)
	}
	if disabled != nil {
		if r := f.RunMsg(ctx, &fxgovtypes.MsgUpdateSwitchParams{Authority: sim.GovAddr.String(), Params: fxgovtypes.SwitchParams{DisablePrecompiles: disabled}}); !r.OK() {
			return failf("harness", "switch: %v", r.Err)
		}
	}
	covered := c.Switch == "addr" || c.Switch == "method" || c.Switch == "method-case"
	// arguments, aimed at the victim where the method names an account / id
	amt := big.NewInt(c.Amt)
	var args []interface{}
	namesVictim := false
	switch parts[1] {
	case "delegateV2":
		args = []interface{}{val0.String(), sim.Fx(c.Amt).BigInt()}
	case "undelegateV2":
		args = []interface{}{val0.String(), sim.Fx(c.Amt).BigInt()}
	case "redelegateV2":
		args = []interface{}{val0.String(), val1.String(), sim.Fx(c.Amt).BigInt()}
	case "withdraw":
		args = []interface{}{val0.String()}
	case "approveShares":
		args = []interface{}{val0.String(), attacker.Hex(), shares}
	case "transferShares":
		args = []interface{}{val0.String(), attacker.Hex(), shares}
	case "transferFromShares":
		from := victim.Hex()
		if c.Variant == 3 {
			from = victim2.Hex() // no allowance at all
		}
		args = []interface{}{val0.String(), from, attacker.Hex(), shares}
		namesVictim = true
	case "crossChain":
		args = []interface{}{usdt.ERC20, sim.ExtAddrN("eth", "dest", 2), amt, big.NewInt(1), fxtypes.MustStrToByte32("eth"), ""}
	case "bridgeCall":
		refund := direct
		if c.Variant >= 2 {
			refund = victim.Hex()
		}
		args = []interface{}{"eth", refund, []common.Address{usdt.ERC20}, []*big.Int{amt}, attacker.Hex(), []byte{1}, big.NewInt(0), []byte{}}
	case "cancelSendToExternal":
		id := new(big.Int).SetUint64(victimTx)
		if c.Variant == 1 { // 2^64 + id truncates to the victim's id
			id.Add(id, new(big.Int).Lsh(big.NewInt(1), 64))
		}
		args = []interface{}{"eth", id}
		namesVictim = true
	case "increaseBridgeFee":
		id := new(big.Int).SetUint64(victimTx)
		args = []interface{}{"eth", id, usdt.ERC20, amt}
		namesVictim = true
	case "executeClaim":
		args = []interface{}{"eth", new(big.Int).SetUint64(nonce)}
	}
	data, err := abiM.Inputs.Pack(args...)
	if err != nil {
		return failf("harness", "pack %s: %v", c.Method, err)
	}
	data = append(append([]byte{}, abiM.ID...), data...)

	principals := map[string]common.Address{"attacker": attacker.Hex(), "victim": victim.Hex(), "victim2": victim2.Hex(), "contract": R}
	before := map[string]c10Portfolio{}
	for n, a := range principals {
		before[n] = c10Snapshot(f, e, ctx, a)
	}
	allowBefore := f.App.StakingKeeper.GetAllowance(ctx, val0, victim.Hex().Bytes(), direct.Bytes())

	// reference run: the same sender sends a transaction that does nothing
	refCtx, _ := ctx.CacheContext()
	f.RunScript(refCtx, txSender, R, evmprog.Script{}, nil, 3_000_000)
	refDump := f.DumpStores(refCtx)

	// the call
	runCtx, _ := ctx.CacheContext()
	var success bool
	var panicMsg string
	if c.Actor == "eoa" {
		r := f.EthTx(runCtx, txSender, &target, nil, data, 3_000_000)
		success, panicMsg = r.Success(), r.Panic
	} else {
		s := evmprog.Script{Calls: []evmprog.Call{{Target: target, Kind: c.CallKind, Data: data, Catch: true, Gas: 2_000_000, Note: c.Method}}}
		r, outs := f.RunScript(runCtx, txSender, R, s, nil, 3_000_000)
		panicMsg = r.Panic
		success = r.Success() && len(outs) == 1 && outs[0].Success
	}
	if panicMsg != "" {
		return failf("C10/precompile-panic/"+c.Method, "%+v: %s", c, trimStack(panicMsg))
	}
	desc := fmt.Sprintf("%+v (direct caller %s, success=%v)", c, direct.Hex()[:10], success)
	unchanged := func() string { return sim.DiffString(sim.Diff(refDump, f.DumpStores(runCtx)), 8) }
	nonCall := c.Actor != "eoa" && c.CallKind != evmprog.KindCall
	if nonCall {
		if success {
			return failf("C10/state-changing-in-non-call-context/"+c.Method, "%s: a state-changing method succeeded through call kind %d", desc, c.CallKind)
		}
		if d := unchanged(); d != "" {
			return failf("C10/non-call-context-changed-state/"+c.Method, "%s: failed, but the state differs from a no-op transaction:\n%s", desc, d)
		}
	}
	if covered {
		if success {
			return failf("C10/disabled-precompile-executed/"+c.Method, "%s: executed although governance disabled %v", desc, disabled)
		}
		if d := unchanged(); d != "" {
			return failf("C10/disabled-precompile-changed-state/"+c.Method, "%s: state differs from a no-op transaction:\n%s", desc, d)
		}
	}
	if !success {
		if d := unchanged(); d != "" && c.Actor != "eoa" {
			return failf("C10/failed-call-changed-state/"+c.Method, "%s: the call failed but the state differs from a no-op transaction:\n%s", desc, d)
		}
	}
	// nobody but the direct caller loses anything (transferFromShares: exactly the allowed shares)
	for n, a := range principals {
		if a == direct {
			continue
		}
		after := c10Snapshot(f, e, runCtx, a)
		red := c10Reduced(before[n], after)
		if parts[1] == "transferFromShares" && success && n == "victim" && c.Variant != 3 {
			allowAfter := f.App.StakingKeeper.GetAllowance(runCtx, val0, victim.Hex().Bytes(), direct.Bytes())
			moved := before[n].Shares[val0.String()].Sub(after.Shares[val0.String()])
			if granted.Cmp(shares) < 0 || allowBefore.Cmp(granted) != 0 || !moved.Equal(sdkmath.LegacyNewDecFromBigInt(shares)) || new(big.Int).Sub(granted, shares).Cmp(allowAfter) != 0 {
				return failf("C10/allowance-rule", "%s: the victim's last approval grants %s (stored %s); afterwards stored %s, shares moved %s for a request of %s", desc, granted, allowBefore, allowAfter, moved, shares)
			}
			var rest []string
			for _, r := range red {
				if !strings.HasPrefix(r, "shares@") {
					rest = append(rest, r)
				}
			}
			red = rest
		}
		if len(red) > 0 {
			return failf("C10/other-account-reduced/"+c.Method, "%s: %s (%s) is not the direct caller but lost: %s", desc, n, a.Hex()[:10], strings.Join(red, "; "))
		}
	}
	nontrivial := namesVictim || nonCall || c.Switch != "none" || c.Actor == "contract-via-victim"
	rec.Case(ev.Sig(c.Actor, c.CallKind, c.Method, c.Variant, c.Switch, c.Allowance, success), nontrivial, "method:"+c.Method, "actor:"+c.Actor, fmt.Sprintf("kind:%d", c.CallKind), "switch:"+c.Switch, fmt.Sprintf("switch-entries:%d", len(disabled)), fmt.Sprintf("success:%v", success))
	if nontrivial && rec.WantSample() {
		rec.Sample(c)
	}
	return nil
}

func init() { registerReplay("C10", runC10) }

func TestC10(t *testing.T) { drive(t, "C10", genC10, runC10) }
