#!/bin/bash
# usage: tools/thorough_all.sh [props...]  -- runs the thorough tier of every property on the unchanged tree, appends to thorough_results.txt
cd /verif
PROPS=${@:-C03 C12 C16 C20 C14 C15 C18 C10 C13 C01 C02 C09 C11 C19 C06 C05 C08 C04 C07 C17}
[ -n "$(git -C /repo status --porcelain)" ] && { echo "/repo not clean"; exit 2; }
for p in $PROPS; do
  start=$(date +%s)
  ./check $p thorough > /tmp/thorough_$p.out 2>&1; rc=$?
  echo "$p exit=$rc wall=$(( $(date +%s) - start ))s $(grep -a -m1 'cases,' /tmp/thorough_$p.out | sed 's/^.*seed=[0-9]*: //') violations=$(grep -a -c '^VIOLATION' /tmp/thorough_$p.out) known=$(grep -a -c '^KNOWN-FINDING' /tmp/thorough_$p.out)" | tee -a thorough_results.txt
  cp evidence/$p.json /tmp/thorough_evidence_$p.json 2>/dev/null
done
echo THOROUGHDONE >> thorough_results.txt
