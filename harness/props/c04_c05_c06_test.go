package props

import (
	"testing"

	"pgregory.net/rapid"

	"verif/harness/ev"
)

func genBm(t *rapid.T) bmCase {
	if thorough() {
		return genBmCase(t, 120)
	}
	return genBmCase(t, 45)
}

func runC04(c bmCase, rec *ev.Recorder) *Failure { return runBridgeMachine(c, "C04", rec) }
func runC05(c bmCase, rec *ev.Recorder) *Failure { return runBridgeMachine(c, "C05", rec) }
func runC06(c bmCase, rec *ev.Recorder) *Failure { return runBridgeMachine(c, "C06", rec) }

func init() {
	registerReplay("C04", runC04)
	registerReplay("C05", runC05)
	registerReplay("C06", runC06)
}

func TestC04(t *testing.T) { drive(t, "C04", genBm, runC04) }
func TestC05(t *testing.T) { drive(t, "C05", genBm, runC05) }
func TestC06(t *testing.T) { drive(t, "C06", genBm, runC06) }
