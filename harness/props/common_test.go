package props

import (
	"reflect"
	"sort"

	"encoding/json"
	"fmt"
	"github.com/cosmos/gogoproto/proto"
	"os"
	"path/filepath"
	"strconv"
	"strings"
	"testing"

	"pgregory.net/rapid"

	"verif/harness/ev"
	"verif/harness/sim"
)

func TestMain(m *testing.M) {
	sim.Init()
	govBech32 = sim.GovAddr.String()
	loadKnown()
	code := m.Run()
	ev.Flush()
	os.Exit(code)
}

// Failure is what a property's run function returns when the oracle is violated.
type Failure struct {
	Sig string // stable classification of the failure (matched against known_findings.json)
	Msg string
}

func failf(sig, format string, a ...interface{}) *Failure {
	return &Failure{Sig: sig, Msg: fmt.Sprintf(format, a...)}
}

type knownFinding struct {
	Property string `json:"property"`
	ID       string `json:"id"`
	Status   string `json:"status"` // "finding" | "fixed"
	What     string `json:"what"`
}

var known = map[string]knownFinding{}

func loadKnown() {
	p := os.Getenv("VERIF_KNOWN")
	if p == "" {
		p = "/verif/known_findings.json"
	}
	b, err := os.ReadFile(p)
	if err != nil {
		return
	}
	var f struct {
		Findings []knownFinding `json:"findings"`
	}
	if err := json.Unmarshal(b, &f); err != nil {
		fmt.Fprintln(os.Stderr, "known_findings.json:", err)
		os.Exit(3)
	}
	for _, k := range f.Findings {
		if k.Status == "finding" {
			known[k.ID] = k
		}
	}
}

// isKnown reports whether a failure signature is a listed (unrepaired) known finding.
func isKnown(sig string) bool {
	_, ok := known[sig]
	return ok
}

func tier() string {
	if t := os.Getenv("VERIF_TIER"); t != "" {
		return t
	}
	return "quick"
}

func thorough() bool { return tier() == "thorough" }

func envInt(name string, def int) int {
	if v := os.Getenv(name); v != "" {
		if n, err := strconv.Atoi(v); err == nil {
			return n
		}
	}
	return def
}

type replayFile struct {
	Property string          `json:"property"`
	Sig      string          `json:"sig"`
	Msg      string          `json:"msg"`
	Case     json.RawMessage `json:"case"`
}

func replayDir() string {
	d := os.Getenv("VERIF_REPLAY_DIR")
	if d == "" {
		d = "/verif/replays/pending"
	}
	_ = os.MkdirAll(d, 0o755)
	return d
}

func writeReplay(prop string, c interface{}, f *Failure) string {
	raw, err := json.Marshal(c)
	if err != nil {
		raw = []byte(fmt.Sprintf("%q", fmt.Sprintf("unserialisable case: %v", err)))
	}
	msg := f.Msg
	if len(msg) > 6000 {
		msg = msg[:6000] + "…"
	}
	b, _ := json.MarshalIndent(replayFile{Property: prop, Sig: f.Sig, Msg: msg, Case: raw}, "", " ")
	shard := os.Getenv("VERIF_SHARD")
	if shard == "" {
		shard = "0"
	}
	name := filepath.Join(replayDir(), fmt.Sprintf("%s-%s.json", prop, strings.ReplaceAll(shard, "/", "_")))
	_ = os.WriteFile(name, b, 0o644)
	return name
}

// replayers: property -> run a serialised case without the library.
var replayers = map[string]func(raw json.RawMessage) *Failure{}

// drive runs a property under rapid: gen draws a pure-data case, run executes it against the real
// code and the oracle. A failure matching a listed known finding is recorded and tolerated;
// anything else writes a replay file (the last one written is the shrunk case) and fails.
func drive[C any](t *testing.T, prop string, gen func(*rapid.T) C, run func(C, *ev.Recorder) *Failure) {
	rec := ev.Get(prop)
	rapid.Check(t, func(rt *rapid.T) {
		c := gen(rt)
		f := safeRun(c, rec, run)
		if f == nil {
			return
		}
		if isKnown(f.Sig) {
			rec.KnownFinding(f.Sig, f.Msg)
			return
		}
		path := writeReplay(prop, c, f)
		rec.AddViolation(f.Sig, f.Msg, path)
		rt.Fatalf("property %s violated [%s]: %s\nreplay: %s", prop, f.Sig, f.Msg, path)
	})
}

// rapidDriveInto is drive() for a second test of the same property: evidence goes to prop's recorder,
// replay files carry replayProp so that the right replayer is picked.
func rapidDriveInto[C any](t *testing.T, prop, replayProp string, rec *ev.Recorder, gen func(*rapid.T) C, run func(C, *ev.Recorder) *Failure) {
	rapid.Check(t, func(rt *rapid.T) {
		c := gen(rt)
		f := run(c, rec)
		if f == nil {
			return
		}
		if isKnown(f.Sig) {
			rec.KnownFinding(f.Sig, f.Msg)
			return
		}
		path := writeReplay(replayProp, c, f)
		rec.AddViolation(f.Sig, f.Msg, path)
		rt.Fatalf("property %s violated [%s]: %s\nreplay: %s", prop, f.Sig, f.Msg, path)
	})
}

func safeRun[C any](c C, rec *ev.Recorder, run func(C, *ev.Recorder) *Failure) (f *Failure) {
	return run(c, rec)
}

// registerReplay makes `check --replay file` work for a property whose case type is C.
func registerReplay[C any](prop string, run func(C, *ev.Recorder) *Failure) {
	replayers[prop] = func(raw json.RawMessage) *Failure {
		var c C
		if err := json.Unmarshal(raw, &c); err != nil {
			return failf("replay/unmarshal", "cannot decode case: %v", err)
		}
		return run(c, ev.Get(prop+"-replay"))
	}
}

// TestReplay re-executes the file named by VERIF_REPLAY_FILE with no generator involved.
func TestReplay(t *testing.T) {
	p := os.Getenv("VERIF_REPLAY_FILE")
	if p == "" {
		t.Skip("VERIF_REPLAY_FILE not set")
	}
	b, err := os.ReadFile(p)
	if err != nil {
		t.Fatal(err)
	}
	var rf replayFile
	if err := json.Unmarshal(b, &rf); err != nil {
		t.Fatal(err)
	}
	r, ok := replayers[rf.Property]
	if !ok {
		t.Fatalf("no replayer for property %q", rf.Property)
	}
	if f := r(rf.Case); f != nil {
		if isKnown(f.Sig) {
			fmt.Printf("REPLAY-KNOWN property=%s sig=%s\n", rf.Property, f.Sig)
			return
		}
		fmt.Printf("REPLAY-VIOLATION property=%s sig=%s\n", rf.Property, f.Sig)
		t.Fatalf("replay reproduces [%s]: %s", f.Sig, f.Msg)
	}
	fmt.Printf("REPLAY-OK property=%s\n", rf.Property)
}

func reflectNew(m proto.Message) proto.Message {
	return reflect.New(reflect.TypeOf(m).Elem()).Interface().(proto.Message)
}

func sortStrings(s []string) { sort.Strings(s) }
