package props

import (
	"encoding/hex"
	"fmt"
	"math/big"
	"sort"
	"strings"
	"testing"
	"time"

	"cosmossdk.io/collections"
	sdkmath "cosmossdk.io/math"
	sdk "github.com/cosmos/cosmos-sdk/types"
	authtypes "github.com/cosmos/cosmos-sdk/x/auth/types"
	distrtypes "github.com/cosmos/cosmos-sdk/x/distribution/types"
	govtypes "github.com/cosmos/cosmos-sdk/x/gov/types"
	govv1 "github.com/cosmos/cosmos-sdk/x/gov/types/v1"
	stakingtypes "github.com/cosmos/cosmos-sdk/x/staking/types"
	"pgregory.net/rapid"

	fxtypes "github.com/functionx/fx-core/v8/types"
	crosschaintypes "github.com/functionx/fx-core/v8/x/crosschain/types"
	erc20types "github.com/functionx/fx-core/v8/x/erc20/types"
	fxgov "github.com/functionx/fx-core/v8/x/gov"
	fxgovtypes "github.com/functionx/fx-core/v8/x/gov/types"

	"verif/harness/ev"
	"verif/harness/sim"
)

// ---------------------------------------------------------------------------------------------
// C15 — governance deposits are conserved and proposals follow their message-type rules.
// Histories of submit / deposit / vote (plain and weighted, by delegators and validator operators) /
// cancel / custom-parameter updates / time steps (to one second before, exactly at and one second
// after the next deposit or voting deadline) over several concurrent proposals of different message
// types, under generated governance parameters. A reference model holds every proposal's deposits,
// status, deadlines and votes; an independent tally (exact rationals over the staking state) decides
// the expected outcome with the quorum of the proposal's message type at tally time.
// ---------------------------------------------------------------------------------------------

type c15Op struct {
	Kind string `json:"kind"` // submit | deposit | vote | params | advance | cancel
	U    int    `json:"u"`    // user 0..3; for votes 4..6 are the validator operators
	P    int    `json:"p"`    // proposal (index into the model's list)
	What int    `json:"what"` // submit: proposal kind; deposit: amount variant; vote: option pattern; params: action; advance: variant
	Amt  int64  `json:"amt"`  // generic amount in 1e12 base units
	Amt2 int64  `json:"amt2"`
	Alt  bool   `json:"alt"` // deposit in another denomination / params: delete / cancel by somebody else
}

type c15Case struct {
	MinDepositFX   int64      `json:"min_deposit_fx"`
	InitRatioPct   int64      `json:"min_initial_deposit_ratio_pct"`
	DepRatioPct    int64      `json:"min_deposit_ratio_pct"`
	VotingPeriodS  int64      `json:"voting_period_s"`
	DepositPeriodS int64      `json:"deposit_period_s"`
	QuorumPct      int64      `json:"quorum_pct"`
	BurnQuorum     bool       `json:"burn_vote_quorum"`
	BurnVeto       bool       `json:"burn_vote_veto"`
	BurnPrevote    bool       `json:"burn_proposal_deposit_prevote"`
	TwoDenoms      bool       `json:"two_denom_min_deposit"` // the minimum deposit also asks for 1000 usdt
	Delegs         [][3]int64 `json:"delegations"`           // user, validator, FX
	Ops            []c15Op    `json:"ops"`
}

type collectionsPairU64Acc = collections.Pair[uint64, sdk.AccAddress]

var c15Kinds = []string{"text", "spend", "spend", "spend", "spend2", "spend2", "toggle", "toggle", "toggle2bad", "toggle2bad", "switch", "mixed", "oracles2panic", "oracles2panic"}

func genC15(t *rapid.T) c15Case {
	c := c15Case{
		MinDepositFX:   rapid.SampledFrom([]int64{100, 1000}).Draw(t, "min"),
		InitRatioPct:   rapid.SampledFrom([]int64{0, 0, 25, 100}).Draw(t, "initRatio"),
		DepRatioPct:    rapid.SampledFrom([]int64{0, 1, 50}).Draw(t, "depRatio"),
		VotingPeriodS:  rapid.SampledFrom([]int64{600, 3600}).Draw(t, "vp"),
		DepositPeriodS: rapid.SampledFrom([]int64{500, 2000}).Draw(t, "dp"),
		QuorumPct:      rapid.SampledFrom([]int64{10, 40, 90}).Draw(t, "quorum"),
		BurnQuorum:     rapid.Bool().Draw(t, "bq"),
		BurnVeto:       rapid.Bool().Draw(t, "bv"),
		BurnPrevote:    rapid.Bool().Draw(t, "bp"),
		TwoDenoms:      rapid.IntRange(0, 3).Draw(t, "two") == 0,
	}
	for i := rapid.IntRange(0, 3).Draw(t, "ndel"); i > 0; i-- {
		c.Delegs = append(c.Delegs, [3]int64{int64(rapid.IntRange(0, 3).Draw(t, "du")), int64(rapid.IntRange(0, 2).Draw(t, "dv")), rapid.SampledFrom([]int64{50, 100, 500}).Draw(t, "damt")})
	}
	max := 30
	if thorough() {
		max = 80
	}
	n := rapid.IntRange(4, max).Draw(t, "nops")
	kinds := []string{"submit", "submit", "submit", "deposit", "deposit", "deposit", "vote", "vote", "vote", "vote", "params", "advance", "advance", "advance", "cancel"}
	for i := 0; i < n; i++ {
		op := c15Op{Kind: rapid.SampledFrom(kinds).Draw(t, "kind"), U: rapid.IntRange(0, 3).Draw(t, "u"), P: rapid.IntRange(0, 5).Draw(t, "p"),
			Amt: rapid.Int64Range(1, 3_000_000_000).Draw(t, "amt"), Amt2: rapid.Int64Range(1, 3_000_000_000).Draw(t, "amt2"), Alt: rapid.IntRange(0, 5).Draw(t, "alt") == 0}
		switch op.Kind {
		case "submit":
			op.What = rapid.IntRange(0, len(c15Kinds)-1).Draw(t, "pkind")
			op.P = rapid.IntRange(0, 5).Draw(t, "amountVariant")
		case "deposit":
			op.What = rapid.IntRange(0, 4).Draw(t, "dvariant")
		case "vote":
			op.U = rapid.IntRange(0, 6).Draw(t, "voter")
			op.What = rapid.IntRange(0, 6).Draw(t, "vpattern")
		case "params":
			op.What = rapid.IntRange(0, 11).Draw(t, "paction")
		case "advance":
			op.What = rapid.SampledFrom([]int{0, 1, 1, 2, 2, 3}).Draw(t, "avariant")
		}
		c.Ops = append(c.Ops, op)
		if op.Kind == "submit" && rapid.IntRange(0, 3).Draw(t, "follow") > 0 {
			// a proposal is usually followed by the deposit that completes it, by votes and by its deadline
			c.Ops = append(c.Ops, c15Op{Kind: "deposit", U: rapid.IntRange(0, 3).Draw(t, "fu"), P: -1, What: rapid.SampledFrom([]int{1, 2, 2, 3, 3}).Draw(t, "fvariant")})
			if c.TwoDenoms {
				c.Ops = append(c.Ops, c15Op{Kind: "deposit", U: rapid.IntRange(0, 3).Draw(t, "fu2"), P: -1, Alt: true, Amt: rapid.SampledFrom([]int64{0, 1, 1, 1, 2}).Draw(t, "fusdt")})
			}
			if rapid.IntRange(0, 4).Draw(t, "fparams") == 0 {
				c.Ops = append(c.Ops, c15Op{Kind: "params", What: rapid.IntRange(0, 11).Draw(t, "fpaction"), Amt: rapid.Int64Range(0, 2).Draw(t, "fpp"), Amt2: rapid.Int64Range(0, 5).Draw(t, "fpq"), Alt: rapid.IntRange(0, 3).Draw(t, "fpdel") == 0})
			}
			for v := rapid.IntRange(0, 6).Draw(t, "fvotes"); v > 0; v-- {
				c.Ops = append(c.Ops, c15Op{Kind: "vote", U: rapid.SampledFrom([]int{0, 1, 2, 3, 4, 4, 5, 5, 6, 6}).Draw(t, "fvoter"), P: -1, What: rapid.IntRange(0, 6).Draw(t, "fpattern")})
			}
			if rapid.Bool().Draw(t, "fend") {
				c.Ops = append(c.Ops, c15Op{Kind: "advance", What: rapid.SampledFrom([]int{1, 2, 2, 3}).Draw(t, "fav")})
			}
		}
	}
	return c
}

type c15Prop struct {
	ID         uint64
	Kind       string
	TypeURL    string
	Proposer   int
	Requested  sdkmath.Int // FX requested from the community pool (spend kinds)
	Spends     []c15Spend
	Deposits   map[string]sdk.Coins // depositor -> coins
	Status     string               // deposit | voting | passed | rejected | failed | dropped | cancelled
	DepositEnd time.Time
	VoteStart  time.Time
	VoteEnd    time.Time
	Votes      map[string]govv1.WeightedVoteOptions
	Token      string // toggle kinds
	OracleAdd  string // oracle-list kinds: the address the first message adds to the bsc list
}

type c15Spend struct {
	To  sdk.AccAddress
	Amt sdkmath.Int
}

func (p *c15Prop) open() bool { return p.Status == "deposit" || p.Status == "voting" }

func (p *c15Prop) total() sdk.Coins {
	t := sdk.NewCoins()
	for _, d := range p.Deposits {
		t = t.Add(d...)
	}
	return t
}

var c15Unit = sdkmath.NewInt(1_000_000_000_000) // amounts in cases are multiples of 1e12 base units

func c15Amt(n int64) sdkmath.Int { return sdkmath.NewInt(n).Mul(c15Unit) }

func c15Rat(d string) *big.Rat {
	r, ok := new(big.Rat).SetString(d)
	if !ok {
		return new(big.Rat)
	}
	return r
}

type c15Tally struct {
	pass, burn, ambiguous bool
	why                   string
}

// c15RefTally recomputes the outcome of a proposal from the model's votes and the staking state with
// exact rationals. A comparison that comes closer than 1e-15 to its threshold is reported as ambiguous.
func c15RefTally(f *sim.Fixture, ctx sdk.Context, votes map[string]govv1.WeightedVoteOptions, quorum string, params govv1.Params) c15Tally {
	type valInfo struct {
		tokens, shares *big.Rat
		deducted       *big.Rat
	}
	vals := map[string]*valInfo{}
	_ = f.App.StakingKeeper.IterateBondedValidatorsByPower(ctx, func(_ int64, v stakingtypes.ValidatorI) bool {
		vals[v.GetOperator()] = &valInfo{tokens: new(big.Rat).SetInt(v.GetBondedTokens().BigInt()), shares: new(big.Rat).SetInt(v.GetDelegatorShares().BigInt()), deducted: new(big.Rat)}
		return false
	})
	res := map[govv1.VoteOption]*big.Rat{govv1.OptionYes: new(big.Rat), govv1.OptionNo: new(big.Rat), govv1.OptionAbstain: new(big.Rat), govv1.OptionNoWithVeto: new(big.Rat)}
	total := new(big.Rat)
	add := func(power *big.Rat, opts govv1.WeightedVoteOptions) {
		for _, o := range opts {
			res[o.Option].Add(res[o.Option], new(big.Rat).Mul(power, c15Rat(o.Weight)))
		}
		total.Add(total, power)
	}
	voters := make([]string, 0, len(votes))
	for v := range votes {
		voters = append(voters, v)
	}
	sort.Strings(voters)
	for _, voter := range voters {
		acc := sdk.MustAccAddressFromBech32(voter)
		dels, _ := f.App.StakingKeeper.GetDelegatorDelegations(ctx, acc, 1000)
		for _, d := range dels {
			v, ok := vals[d.ValidatorAddress]
			if !ok {
				continue
			}
			sh := new(big.Rat).SetInt(d.Shares.BigInt()) // both share figures carry the same 1e18 scale
			v.deducted.Add(v.deducted, sh)
			add(new(big.Rat).Quo(new(big.Rat).Mul(sh, v.tokens), v.shares), votes[voter])
		}
	}
	ops := make([]string, 0, len(vals))
	for op := range vals {
		ops = append(ops, op)
	}
	sort.Strings(ops)
	for _, op := range ops {
		valAddr, _ := sdk.ValAddressFromBech32(op)
		opts, voted := votes[sdk.AccAddress(valAddr).String()]
		if !voted {
			continue
		}
		v := vals[op]
		add(new(big.Rat).Quo(new(big.Rat).Mul(new(big.Rat).Sub(v.shares, v.deducted), v.tokens), v.shares), opts)
	}
	bonded, _ := f.App.StakingKeeper.TotalBondedTokens(ctx)
	if bonded.IsZero() {
		return c15Tally{why: "nothing bonded"}
	}
	eps := big.NewRat(1, 1_000_000_000_000_000)
	near := func(a, b *big.Rat) bool { return new(big.Rat).Abs(new(big.Rat).Sub(a, b)).Cmp(eps) < 0 }
	percent := new(big.Rat).Quo(total, new(big.Rat).SetInt(bonded.BigInt()))
	q := c15Rat(quorum)
	if near(percent, q) {
		return c15Tally{ambiguous: true}
	}
	if percent.Cmp(q) < 0 {
		return c15Tally{burn: params.BurnVoteQuorum, why: fmt.Sprintf("turnout %s < quorum %s", percent.FloatString(6), quorum)}
	}
	nonAbstain := new(big.Rat).Sub(total, res[govv1.OptionAbstain])
	if nonAbstain.Sign() == 0 {
		return c15Tally{why: "everybody abstained"}
	}
	vetoShare := new(big.Rat).Quo(res[govv1.OptionNoWithVeto], total)
	vt := c15Rat(params.VetoThreshold)
	if near(vetoShare, vt) {
		return c15Tally{ambiguous: true}
	}
	if vetoShare.Cmp(vt) > 0 {
		return c15Tally{burn: params.BurnVoteVeto, why: "vetoed"}
	}
	yesShare := new(big.Rat).Quo(res[govv1.OptionYes], nonAbstain)
	th := c15Rat(params.Threshold)
	if near(yesShare, th) {
		return c15Tally{ambiguous: true}
	}
	if yesShare.Cmp(th) > 0 {
		return c15Tally{pass: true, why: fmt.Sprintf("turnout %s >= quorum %s, yes share %s", percent.FloatString(6), quorum, yesShare.FloatString(6))}
	}
	return c15Tally{why: "not enough yes"}
}

func runC15(c c15Case, rec *ev.Recorder) *Failure {
	f := base()
	ctx, _ := f.Ctx.CacheContext()
	gov := sim.GovAddr.String()
	govAcc := authtypes.NewModuleAddress(govtypes.ModuleName)
	gk := f.App.GovKeeper
	labels := map[string]bool{}

	// configuration
	params, err := gk.Params.Get(ctx)
	if err != nil {
		return failf("harness", "gov params: %v", err)
	}
	dur := func(s int64) *time.Duration { d := time.Duration(s) * time.Second; return &d }
	params.MinDeposit = sdk.NewCoins(sim.FxCoin(c.MinDepositFX))
	params.ExpeditedMinDeposit = sdk.NewCoins(sim.FxCoin(c.MinDepositFX * 5))
	if c.TwoDenoms {
		params.MinDeposit = sdk.NewCoins(params.MinDeposit...).Add(sdk.NewCoin("usdt", sdkmath.NewInt(1000)))
		params.ExpeditedMinDeposit = sdk.NewCoins(params.ExpeditedMinDeposit...).Add(sdk.NewCoin("usdt", sdkmath.NewInt(5000)))
	}
	params.MaxDepositPeriod = dur(c.DepositPeriodS)
	params.VotingPeriod = dur(c.VotingPeriodS)
	params.ExpeditedVotingPeriod = dur(c.VotingPeriodS / 2)
	params.Quorum = sdkmath.LegacyNewDecWithPrec(c.QuorumPct, 2).String()
	params.MinInitialDepositRatio = sdkmath.LegacyNewDecWithPrec(c.InitRatioPct, 2).String()
	params.MinDepositRatio = sdkmath.LegacyNewDecWithPrec(c.DepRatioPct, 2).String()
	params.BurnVoteQuorum, params.BurnVoteVeto, params.BurnProposalDepositPrevote = c.BurnQuorum, c.BurnVeto, c.BurnPrevote
	if r := f.RunMsg(ctx, &govv1.MsgUpdateParams{Authority: gov, Params: params}); !r.OK() {
		return failf("harness", "gov params: %v", r.Err)
	}
	for _, d := range c.Delegs {
		f.RunMsg(ctx, &stakingtypes.MsgDelegate{DelegatorAddress: f.Users[d[0]].Acc().String(), ValidatorAddress: f.ValKeys[d[1]].Val().String(), Amount: sim.FxCoin(d[2])})
	}
	// the model's copy of the per-type parameters (configuration read once, then updated by the model)
	custom := map[string]fxgovtypes.CustomParams{}
	if err := gk.CustomerParams.Walk(ctx, nil, func(k string, v fxgovtypes.CustomParams) (bool, error) { custom[k] = v; return false, nil }); err != nil {
		return failf("harness", "custom params: %v", err)
	}
	spendURL := sdk.MsgTypeURL(&distrtypes.MsgCommunityPoolSpend{})
	toggleURL := sdk.MsgTypeURL(&erc20types.MsgToggleTokenConversion{})
	switchURL := sdk.MsgTypeURL(&fxgovtypes.MsgUpdateSwitchParams{})
	urls := []string{spendURL, toggleURL, switchURL, ""}

	var props []*c15Prop
	corrupted := false
	voterKey := func(u int) sim.Key {
		if u >= 4 {
			return f.ValKeys[(u-4)%len(f.ValKeys)]
		}
		return f.Users[u]
	}
	if bal := f.App.BankKeeper.GetAllBalances(ctx, govAcc); !bal.IsZero() {
		return failf("harness", "the governance account is not empty at the start: %s", bal)
	}
	recipientN := 0

	// minimum (in FX) the model requires before a proposal may be in voting; the share of a requested
	// amount is taken rounded down, so that either rounding of the code is accepted
	// minFor: the minimum the model requires before a proposal may be in voting. For a spend the share
	// of the request replaces the default when it is larger; where the two are within one base unit of
	// each other (rounding of the share) either reading is accepted: alt is the second admissible one.
	minFor2 := func(p *c15Prop) (min sdk.Coins, alt sdk.Coins) {
		min = sdk.NewCoins(params.MinDeposit...)
		if p.TypeURL == spendURL {
			if cp, ok := custom[spendURL]; ok {
				share := new(big.Rat).Mul(c15Rat(cp.DepositRatio), new(big.Rat).SetInt(p.Requested.BigInt()))
				lo := sdkmath.NewIntFromBigInt(new(big.Int).Quo(share.Num(), share.Denom()))
				hi := lo
				if !share.IsInt() {
					hi = lo.AddRaw(1)
				}
				def := min.AmountOf(fxtypes.DefaultDenom)
				switch {
				case lo.GT(def):
					min = sdk.NewCoins(sdk.NewCoin(fxtypes.DefaultDenom, lo)) // the share of the request is larger: it is the minimum
				case hi.GTE(def) && lo.IsPositive():
					alt = sdk.NewCoins(sdk.NewCoin(fxtypes.DefaultDenom, lo))
				}
			}
		}
		return min, alt
	}
	minFor := func(p *c15Prop) sdk.Coins { m, _ := minFor2(p); return m }
	reached := func(p *c15Prop) bool {
		m, alt := minFor2(p)
		return p.total().IsAllGTE(m) || (alt != nil && p.total().IsAllGTE(alt))
	}
	periodFor := func(p *c15Prop) time.Duration {
		if cp, ok := custom[p.TypeURL]; ok && cp.VotingPeriod != nil {
			return *cp.VotingPeriod
		}
		return time.Duration(c.VotingPeriodS) * time.Second
	}
	quorumFor := func(p *c15Prop) string {
		if cp, ok := custom[p.TypeURL]; ok {
			return cp.Quorum
		}
		return params.Quorum
	}

	// books: module balance = stored deposits = the model's deposits of open proposals; statuses agree
	books := func(desc string) *Failure {
		stored := sdk.NewCoins()
		storedBy := map[uint64]sdk.Coins{}
		if err := gk.Deposits.Walk(ctx, nil, func(_ collectionsPairU64Acc, d govv1.Deposit) (bool, error) {
			stored = stored.Add(d.Amount...)
			storedBy[d.ProposalId] = storedBy[d.ProposalId].Add(d.Amount...)
			return false, nil
		}); err != nil {
			return failf("harness", "walk deposits: %v", err)
		}
		model := sdk.NewCoins()
		for _, p := range props {
			if p.open() {
				model = model.Add(p.total()...)
			}
		}
		bal := f.App.BankKeeper.GetAllBalances(ctx, govAcc)
		if !bal.Equal(stored) || !bal.Equal(model) {
			return failf("C15/deposit-books", "%s: the governance account holds %s, the stored deposits sum to %s, the deposits of open proposals are %s", desc, bal, stored, model)
		}
		for _, p := range props {
			sp, err := gk.Proposals.Get(ctx, p.ID)
			switch p.Status {
			case "dropped", "cancelled":
				if err == nil {
					return failf("C15/status", "%s: proposal %d is %s in the model but still stored as %s", desc, p.ID, p.Status, sp.Status)
				}
			default:
				want := map[string]govv1.ProposalStatus{"deposit": govv1.StatusDepositPeriod, "voting": govv1.StatusVotingPeriod, "passed": govv1.StatusPassed, "rejected": govv1.StatusRejected, "failed": govv1.StatusFailed}[p.Status]
				if err != nil || sp.Status != want {
					return failf("C15/status", "%s: proposal %d (%s) is %s in the model, stored status %v (%v)", desc, p.ID, p.Kind, p.Status, sp.Status, err)
				}
				if p.open() && !sdk.NewCoins(sp.TotalDeposit...).Equal(p.total()) {
					return failf("C15/total-deposit", "%s: proposal %d records a total deposit of %s, its deposits sum to %s", desc, p.ID, sdk.NewCoins(sp.TotalDeposit...), p.total())
				}
				if !p.open() && !storedBy[p.ID].IsZero() {
					return failf("C15/deposit-left", "%s: proposal %d has ended (%s) but %s of deposits are still stored", desc, p.ID, p.Status, storedBy[p.ID])
				}
			}
		}
		return nil
	}

	// activation: called after an accepted submit / deposit
	activation := func(p *c15Prop, desc string) *Failure {
		sp, err := gk.Proposals.Get(ctx, p.ID)
		if err != nil {
			return failf("C15/status", "%s: proposal %d not stored: %v", desc, p.ID, err)
		}
		if sp.Status == govv1.StatusVotingPeriod && p.Status == "deposit" {
			if min := minFor(p); !reached(p) {
				return failf("C15/voting-without-min-deposit/"+p.Kind, "%s: proposal %d (%s, requests %s) entered voting with a total deposit of %s; the minimum for its type is %s", desc, p.ID, p.Kind, p.Requested, p.total(), min)
			}
			p.Status, p.VoteStart = "voting", ctx.BlockTime()
			p.VoteEnd = p.VoteStart.Add(periodFor(p))
			if sp.VotingEndTime == nil || !sp.VotingEndTime.Equal(p.VoteEnd) {
				return failf("C15/voting-period/"+p.Kind, "%s: proposal %d (%s) votes until %v; the voting period of its type is %s (until %v)", desc, p.ID, p.Kind, sp.VotingEndTime, periodFor(p), p.VoteEnd)
			}
			labels["activated"] = true
			if _, ok := custom[p.TypeURL]; ok {
				labels["activated-with-custom-params"] = true
			}
		} else if p.Status == "deposit" && p.total().IsAllGTE(minFor(p)) && p.Kind != "spend" && p.Kind != "spend2" {
			labels["min-reached-but-not-activated"] = true
		}
		return nil
	}

	for si, op := range c.Ops {
		desc := fmt.Sprintf("step %d %+v", si, op)
		var target *c15Prop
		if len(props) > 0 {
			if op.P < 0 {
				target = props[len(props)-1]
			} else {
				target = props[op.P%len(props)]
			}
		}
		switch op.Kind {
		case "submit":
			kind := c15Kinds[op.What%len(c15Kinds)]
			proposer := f.Users[op.U%4]
			p := &c15Prop{Kind: kind, Proposer: op.U % 4, Requested: sdkmath.ZeroInt(), Deposits: map[string]sdk.Coins{}, Votes: map[string]govv1.WeightedVoteOptions{}, Status: "deposit"}
			var msgs []sdk.Msg
			spend := func(amt sdkmath.Int) {
				recipientN++
				to := authtypes.NewModuleAddress(fmt.Sprintf("verif-c15-recipient-%d-%d", si, recipientN))
				msgs = append(msgs, &distrtypes.MsgCommunityPoolSpend{Authority: gov, Recipient: to.String(), Amount: sdk.NewCoins(sdk.NewCoin(fxtypes.DefaultDenom, amt))})
				p.Spends = append(p.Spends, c15Spend{To: to, Amt: amt})
				p.Requested = p.Requested.Add(amt)
			}
			// requested amounts around the point where the share of the request overtakes the default minimum
			ratio := c15Rat("0")
			if cp, ok := custom[spendURL]; ok {
				ratio = c15Rat(cp.DepositRatio)
			}
			pivot := c15Amt(op.Amt)
			if ratio.Sign() > 0 {
				pv := new(big.Rat).Quo(new(big.Rat).SetInt(sim.Fx(c.MinDepositFX).BigInt()), ratio)
				pivot = sdkmath.NewIntFromBigInt(new(big.Int).Quo(pv.Num(), pv.Denom()))
			}
			amount := []sdkmath.Int{pivot.SubRaw(1), pivot, pivot.AddRaw(1), pivot.MulRaw(3), c15Amt(op.Amt), pivot.QuoRaw(2)}[op.P%6]
			if !amount.IsPositive() {
				amount = sdkmath.OneInt()
			}
			switch kind {
			case "text":
			case "spend":
				spend(amount)
				p.TypeURL = spendURL
			case "spend2":
				spend(amount)
				second := c15Amt(op.Amt2)
				if op.Alt { // more than the pool holds: the second message fails
					pool, _ := f.App.DistrKeeper.FeePool.Get(ctx)
					second = pool.CommunityPool.AmountOf(fxtypes.DefaultDenom).TruncateInt().AddRaw(1)
				}
				spend(second)
				p.TypeURL = spendURL
			case "toggle":
				p.Token = []string{"usdt", "ext"}[op.U%2]
				msgs = append(msgs, &erc20types.MsgToggleTokenConversion{Authority: gov, Token: p.Token})
				p.TypeURL = toggleURL
			case "toggle2bad":
				p.Token = []string{"usdt", "ext"}[op.U%2]
				msgs = append(msgs, &erc20types.MsgToggleTokenConversion{Authority: gov, Token: p.Token}, &erc20types.MsgToggleTokenConversion{Authority: gov, Token: "no-such-token"})
				p.TypeURL = toggleURL
			case "mixed":
				spend(amount)
				msgs = append(msgs, &erc20types.MsgToggleTokenConversion{Authority: gov, Token: "usdt"})
				p.TypeURL = spendURL
			case "oracles2panic":
				// two oracle-list updates; the second one's handler panics on a stored list that a
				// governance raw-store write made undecodable beforehand
				if !corrupted {
					cur := ctx.KVStore(f.App.GetKey("tron")).Get(crosschaintypes.ProposalOracleKey)
					if r := f.RunMsg(ctx, &fxgovtypes.MsgUpdateStore{Authority: gov, UpdateStores: []fxgovtypes.UpdateStore{{Space: "tron", Key: hex.EncodeToString(crosschaintypes.ProposalOracleKey), OldValue: hex.EncodeToString(cur), Value: "ff"}}}); !r.OK() {
						return failf("harness", "%s: corrupt stored list: %v", desc, r.Err)
					}
					corrupted = true
				}
				bscList, _ := f.Keeper("bsc").GetProposalOracle(ctx)
				p.OracleAdd = authtypes.NewModuleAddress(fmt.Sprintf("verif-c15-oracle-%d", si)).String()
				msgs = append(msgs, &crosschaintypes.MsgUpdateChainOracles{ChainName: "bsc", Authority: gov, Oracles: append(append([]string{}, bscList.Oracles...), p.OracleAdd)},
					&crosschaintypes.MsgUpdateChainOracles{ChainName: "tron", Authority: gov, Oracles: []string{p.OracleAdd}})
				p.TypeURL = sdk.MsgTypeURL(&crosschaintypes.MsgUpdateChainOracles{})
			case "switch":
				msgs = append(msgs, &fxgovtypes.MsgUpdateSwitchParams{Authority: gov, Params: fxgovtypes.SwitchParams{DisableMsgTypes: []string{fmt.Sprintf("/verif.Nothing%d", si)}}})
				p.TypeURL = switchURL
			}
			// initial deposit: nothing, the required initial share, or a generic amount
			initial := sdk.NewCoins()
			switch op.Amt % 3 {
			case 1:
				initial = sdk.NewCoins(sdk.NewCoin(fxtypes.DefaultDenom, sim.Fx(c.MinDepositFX).MulRaw(c.InitRatioPct).QuoRaw(100)))
			case 2:
				initial = sdk.NewCoins(sdk.NewCoin(fxtypes.DefaultDenom, c15Amt(op.Amt2)))
			}
			msg, err := govv1.NewMsgSubmitProposal(msgs, initial, proposer.Acc().String(), "", fmt.Sprintf("proposal %d", si), "summary", false)
			if err != nil {
				return failf("harness", "build proposal: %v", err)
			}
			if len(msgs) == 0 {
				msg.Metadata = "text"
			}
			next, _ := gk.ProposalID.Peek(ctx)
			balBefore := f.App.BankKeeper.GetAllBalances(ctx, proposer.Acc())
			r := f.RunMsg(ctx, msg)
			if !r.OK() {
				if kind == "mixed" {
					labels["mixed-types-refused"] = true
				}
				break
			}
			if kind == "mixed" {
				return failf("C15/mixed-message-types-accepted", "%s: a proposal with messages of two types (%s and %s) was accepted", desc, spendURL, toggleURL)
			}
			if paid := balBefore.Sub(f.App.BankKeeper.GetAllBalances(ctx, proposer.Acc())...); !paid.Equal(initial) {
				return failf("C15/deposit-amount", "%s: the proposer paid %s for an initial deposit of %s", desc, paid, initial)
			}
			p.ID = next
			p.DepositEnd = ctx.BlockTime().Add(time.Duration(c.DepositPeriodS) * time.Second)
			if !initial.IsZero() {
				p.Deposits[proposer.Acc().String()] = initial
			}
			props = append(props, p)
			labels["submit:"+kind] = true
			if fl := activation(p, desc); fl != nil {
				return fl
			}
		case "deposit":
			if target == nil {
				break
			}
			depositor := f.Users[op.U%4]
			missing := minFor(target).AmountOf(fxtypes.DefaultDenom).Sub(target.total().AmountOf(fxtypes.DefaultDenom))
			amt := []sdkmath.Int{c15Amt(op.Amt % 1000), missing.SubRaw(1), missing, missing.AddRaw(1), c15Amt(op.Amt)}[op.What%5]
			if !amt.IsPositive() {
				amt = sdkmath.OneInt()
			}
			coins := sdk.NewCoins(sdk.NewCoin(fxtypes.DefaultDenom, amt))
			if op.Alt {
				coins = sdk.NewCoins(sdk.NewCoin("usdt", sdkmath.NewInt([]int64{999, 1000, op.Amt%1_000_000 + 1}[op.Amt%3])))
				labels["deposit-other-denom"] = true
			}
			balBefore := f.App.BankKeeper.GetAllBalances(ctx, depositor.Acc())
			r := f.RunMsg(ctx, &govv1.MsgDeposit{ProposalId: target.ID, Depositor: depositor.Acc().String(), Amount: coins})
			if !r.OK() {
				break
			}
			if !target.open() {
				return failf("C15/deposit-accepted-on-ended-proposal", "%s: a deposit on proposal %d (%s) was accepted", desc, target.ID, target.Status)
			}
			if paid := balBefore.Sub(f.App.BankKeeper.GetAllBalances(ctx, depositor.Acc())...); !paid.Equal(coins) {
				return failf("C15/deposit-amount", "%s: the depositor paid %s for a deposit of %s", desc, paid, coins)
			}
			target.Deposits[depositor.Acc().String()] = target.Deposits[depositor.Acc().String()].Add(coins...)
			labels["deposit"] = true
			if op.What%5 >= 1 && op.What%5 <= 3 {
				labels["deposit-at-boundary"] = true
			}
			if fl := activation(target, desc); fl != nil {
				return fl
			}
		case "vote":
			if target == nil {
				break
			}
			voter := voterKey(op.U)
			var opts govv1.WeightedVoteOptions
			switch op.What % 7 {
			case 0, 1, 2:
				opts = govv1.NewNonSplitVoteOption(govv1.OptionYes)
			case 3:
				opts = govv1.NewNonSplitVoteOption(govv1.OptionNo)
			case 4:
				opts = govv1.NewNonSplitVoteOption(govv1.OptionAbstain)
			case 5:
				opts = govv1.NewNonSplitVoteOption(govv1.OptionNoWithVeto)
			case 6:
				opts = govv1.WeightedVoteOptions{{Option: govv1.OptionYes, Weight: "0.600000000000000000"}, {Option: govv1.OptionNoWithVeto, Weight: "0.300000000000000000"}, {Option: govv1.OptionAbstain, Weight: "0.100000000000000000"}}
			}
			var r sim.Result
			if len(opts) == 1 {
				r = f.RunMsg(ctx, &govv1.MsgVote{ProposalId: target.ID, Voter: voter.Acc().String(), Option: opts[0].Option})
			} else {
				r = f.RunMsg(ctx, &govv1.MsgVoteWeighted{ProposalId: target.ID, Voter: voter.Acc().String(), Options: opts})
			}
			if r.OK() {
				if target.Status != "voting" {
					return failf("C15/vote-accepted-outside-voting", "%s: a vote on proposal %d (%s) was accepted", desc, target.ID, target.Status)
				}
				target.Votes[voter.Acc().String()] = opts
				labels["vote"] = true
				if op.U >= 4 {
					labels["validator-vote"] = true
				}
				if len(opts) > 1 {
					labels["weighted-vote"] = true
				}
			}
		case "params":
			url := urls[op.What%len(urls)]
			if url == "" {
				break
			}
			if op.Alt {
				if r := f.RunMsg(ctx, &fxgovtypes.MsgUpdateCustomParams{Authority: gov, MsgUrl: url}); r.OK() {
					delete(custom, url)
					labels["custom-params-removed"] = true
				}
				break
			}
			cp := fxgovtypes.CustomParams{
				DepositRatio: []string{"0.000000000000000000", "0.100000000000000000", "0.500000000000000000", "1.000000000000000000"}[(op.What/4)%4],
				VotingPeriod: dur([]int64{300, 1200, 7200}[op.Amt%3]),
				Quorum:       []string{"0.050000000000000000", "0.250000000000000000", "0.400000000000000000", "0.950000000000000000", "0.000000000000000000", "1.000000000000000000"}[op.Amt2%6],
			}
			if r := f.RunMsg(ctx, &fxgovtypes.MsgUpdateCustomParams{Authority: gov, MsgUrl: url, CustomParams: cp}); r.OK() {
				custom[url] = cp
				labels["custom-params-set"] = true
				for _, p := range props {
					if p.open() && p.TypeURL == url {
						labels["custom-params-changed-while-open"] = true
					}
				}
			} else {
				return failf("harness", "%s: custom params refused: %v", desc, r.Err)
			}
		case "cancel":
			if target == nil {
				break
			}
			who := f.Users[target.Proposer]
			if op.Alt {
				who = f.Users[(target.Proposer+1)%4]
			}
			before := map[string]sdkmath.Int{}
			for d := range target.Deposits {
				before[d] = f.App.BankKeeper.GetBalance(ctx, sdk.MustAccAddressFromBech32(d), fxtypes.DefaultDenom).Amount
			}
			r := f.RunMsg(ctx, &govv1.MsgCancelProposal{ProposalId: target.ID, Proposer: who.Acc().String()})
			if !r.OK() {
				break
			}
			if op.Alt || !target.open() {
				return failf("C15/cancel-accepted", "%s: the cancellation of proposal %d (%s) by user %d was accepted", desc, target.ID, target.Status, (target.Proposer+1)%4)
			}
			rate := c15Rat(params.ProposalCancelRatio)
			for d, coins := range target.Deposits {
				amt := coins.AmountOf(fxtypes.DefaultDenom)
				charge := new(big.Rat).Mul(rate, new(big.Rat).SetInt(amt.BigInt()))
				want := amt.Sub(sdkmath.NewIntFromBigInt(new(big.Int).Quo(charge.Num(), charge.Denom())))
				got := f.App.BankKeeper.GetBalance(ctx, sdk.MustAccAddressFromBech32(d), fxtypes.DefaultDenom).Amount.Sub(before[d])
				if !got.Equal(want) {
					return failf("C15/cancel-refund", "%s: depositor %s got %s back of %s at a cancellation charge of %s", desc, d, got, amt, params.ProposalCancelRatio)
				}
			}
			target.Status = "cancelled"
			labels["cancelled"] = true
		case "advance":
			// next deadline over the open proposals
			var next time.Time
			for _, p := range props {
				var d time.Time
				switch p.Status {
				case "deposit":
					d = p.DepositEnd
				case "voting":
					d = p.VoteEnd
				default:
					continue
				}
				if next.IsZero() || d.Before(next) {
					next = d
				}
			}
			now := ctx.BlockTime()
			to := now.Add(60 * time.Second)
			if !next.IsZero() && op.What > 0 {
				to = next.Add(time.Duration(op.What-2) * time.Second) // deadline -1 s, exactly, +1 s
				if !to.After(now) {
					to = now.Add(time.Second)
				}
			}
			ctx = ctx.WithBlockTime(to).WithBlockHeight(ctx.BlockHeight() + 1)
			// what must happen, in the order of the queues (inactive first, then active by end time and id)
			var dropped, tallied []*c15Prop
			for _, p := range props {
				if p.Status == "deposit" && !p.DepositEnd.After(to) {
					dropped = append(dropped, p)
				}
				if p.Status == "voting" && !p.VoteEnd.After(to) {
					tallied = append(tallied, p)
				}
			}
			sort.Slice(tallied, func(i, j int) bool {
				if !tallied[i].VoteEnd.Equal(tallied[j].VoteEnd) {
					return tallied[i].VoteEnd.Before(tallied[j].VoteEnd)
				}
				return tallied[i].ID < tallied[j].ID
			})
			depositors := map[string]bool{}
			for _, p := range props {
				for d := range p.Deposits {
					depositors[d] = true
				}
			}
			balBefore := map[string]sdk.Coins{}
			for d := range depositors {
				balBefore[d] = f.App.BankKeeper.GetAllBalances(ctx, sdk.MustAccAddressFromBech32(d))
			}
			supplyOf := func() sdk.Coins {
				return sdk.NewCoins(f.App.BankKeeper.GetSupply(ctx, fxtypes.DefaultDenom), f.App.BankKeeper.GetSupply(ctx, "usdt"))
			}
			supplyBefore := supplyOf()
			poolBefore, _ := f.App.DistrKeeper.FeePool.Get(ctx)
			enabledBefore := map[string]bool{}
			for _, tk := range []string{"usdt", "ext"} {
				pair, _ := f.App.Erc20Keeper.GetTokenPair(ctx, tk)
				enabledBefore[tk] = pair.Enabled
			}
			var dumpBefore sim.Dump
			if len(tallied) == 1 && len(dropped) == 0 {
				dumpBefore = f.DumpStores(ctx)
			}
			// expected outcomes (the tally reads the staking state and the per-type quorum as of now)
			type outcome struct {
				p     *c15Prop
				tally c15Tally
			}
			var outs []outcome
			for _, p := range tallied {
				outs = append(outs, outcome{p, c15RefTally(f, ctx, p.Votes, quorumFor(p), params)})
			}
			if err := func() (err error) {
				defer func() {
					if r := recover(); r != nil {
						err = fmt.Errorf("panic: %v", r)
					}
				}()
				return fxgov.EndBlocker(ctx, gk)
			}(); err != nil {
				return failf("C15/endblock-error", "%s: %v", desc, err)
			}
			refund := map[string]sdk.Coins{}
			burned := sdk.NewCoins()
			settle := func(p *c15Prop, burn bool) {
				for d, coins := range p.Deposits {
					if burn {
						burned = burned.Add(coins...)
					} else {
						refund[d] = refund[d].Add(coins...)
					}
				}
			}
			for _, p := range dropped {
				p.Status = "dropped"
				settle(p, c.BurnPrevote)
				labels["dropped-at-deposit-deadline"] = true
			}
			pool := poolBefore.CommunityPool.AmountOf(fxtypes.DefaultDenom)
			ambiguous := false
			toggled := map[string][]string{}
			for _, o := range outs {
				p := o.p
				sp, err := gk.Proposals.Get(ctx, p.ID)
				if err != nil {
					return failf("C15/status", "%s: tallied proposal %d is not stored: %v", desc, p.ID, err)
				}
				if o.tally.ambiguous {
					ambiguous = true
					labels["tally-at-threshold-skipped"] = true
					// follow the code for the status; the books are still checked below
					p.Status = map[govv1.ProposalStatus]string{govv1.StatusPassed: "passed", govv1.StatusRejected: "rejected", govv1.StatusFailed: "failed"}[sp.Status]
					continue
				}
				settle(p, o.tally.burn)
				if !o.tally.pass {
					p.Status = "rejected"
					if sp.Status != govv1.StatusRejected {
						return failf("C15/tally-outcome/"+p.Kind, "%s: proposal %d (%s, type %q, quorum of its type %s) ended as %s; the votes say rejected (%s)", desc, p.ID, p.Kind, p.TypeURL, quorumFor(p), sp.Status, o.tally.why)
					}
					labels["rejected"] = true
					continue
				}
				if sp.Status != govv1.StatusPassed && sp.Status != govv1.StatusFailed {
					return failf("C15/tally-outcome/"+p.Kind, "%s: proposal %d (%s, type %q, quorum of its type %s) ended as %s; the votes say passed (%s)", desc, p.ID, p.Kind, p.TypeURL, quorumFor(p), sp.Status, o.tally.why)
				}
				// execution: all messages or none
				ok := true
				need := sdkmath.LegacyZeroDec()
				for _, s := range p.Spends {
					need = need.Add(sdkmath.LegacyNewDecFromInt(s.Amt))
				}
				switch p.Kind {
				case "spend", "spend2":
					for _, s := range p.Spends { // sequentially, as the messages run
						if sdkmath.LegacyNewDecFromInt(s.Amt).GT(pool) {
							ok = false
						}
					}
					if need.GT(pool) {
						ok = false
					}
				case "toggle2bad", "oracles2panic":
					ok = false
				}
				if ok {
					p.Status = "passed"
					pool = pool.Sub(need)
				} else {
					p.Status = "failed"
				}
				if (sp.Status == govv1.StatusPassed) != ok {
					return failf("C15/execution-outcome/"+p.Kind, "%s: proposal %d (%s) passed the vote; its messages %s but it is stored as %s (%s)", desc, p.ID, p.Kind, map[bool]string{true: "can all be applied", false: "cannot all be applied"}[ok], sp.Status, sp.FailedReason)
				}
				for _, s := range p.Spends {
					got := f.App.BankKeeper.GetBalance(ctx, s.To, fxtypes.DefaultDenom).Amount
					want := sdkmath.ZeroInt()
					if ok {
						want = s.Amt
					}
					if !got.Equal(want) {
						return failf("C15/partial-execution/"+p.Kind, "%s: proposal %d (%s) ended as %s but the recipient of its spend of %s holds %s", desc, p.ID, p.Kind, p.Status, s.Amt, got)
					}
				}
				if p.OracleAdd != "" {
					if list, _ := f.Keeper("bsc").GetProposalOracle(ctx); strings.Contains(strings.Join(list.Oracles, ","), p.OracleAdd) != ok {
						return failf("C15/partial-execution/"+p.Kind, "%s: proposal %d (%s) ended as %s (%s); its first message's oracle %s is in the bsc list: %v", desc, p.ID, p.Kind, p.Status, sp.FailedReason, p.OracleAdd, !ok)
					}
					labels["panicking-message"] = true
				}
				if p.Token != "" && ok {
					enabledBefore[p.Token] = !enabledBefore[p.Token] // expected state after this proposal
					toggled[p.Token] = append(toggled[p.Token], fmt.Sprintf("%d", p.ID))
				}
				if !ok && dumpBefore != nil {
					for _, d := range sim.Diff(dumpBefore, f.DumpStores(ctx)) {
						if d.Store != govtypes.StoreKey && d.Store != "bank" {
							return failf("C15/partial-execution/"+p.Kind, "%s: proposal %d (%s) failed on execution but store %q changed: %s", desc, p.ID, p.Kind, d.Store, d.String())
						}
					}
					labels["failed-execution-store-diff-checked"] = true
				}
				labels["tally-"+p.Status] = true
			}
			if !ambiguous {
				for _, tk := range []string{"usdt", "ext"} {
					if pair, _ := f.App.Erc20Keeper.GetTokenPair(ctx, tk); pair.Enabled != enabledBefore[tk] {
						return failf("C15/partial-execution/toggle", "%s: conversion of %s is enabled=%v after this step; the proposals that passed and could be applied (%v) leave it %v", desc, tk, pair.Enabled, toggled[tk], enabledBefore[tk])
					}
				}
			}
			// nothing else may have ended
			for _, p := range props {
				if p.open() {
					sp, err := gk.Proposals.Get(ctx, p.ID)
					if err != nil || (sp.Status != govv1.StatusDepositPeriod && sp.Status != govv1.StatusVotingPeriod) {
						return failf("C15/ended-early", "%s: proposal %d (%s until %v / %v) ended at %v: %v %v", desc, p.ID, p.Status, p.DepositEnd, p.VoteEnd, to, sp.Status, err)
					}
				}
			}
			if !ambiguous {
				// every depositor is refunded exactly once, every burned deposit leaves the supply exactly once
				for d := range depositors {
					got, neg := f.App.BankKeeper.GetAllBalances(ctx, sdk.MustAccAddressFromBech32(d)).SafeSub(balBefore[d]...)
					want := sdk.NewCoins(refund[d]...)
					if neg || !got.Equal(want) {
						return failf("C15/refund-amount", "%s: depositor %s received %s; the deposits refunded in this step sum to %s", desc, d, got, want)
					}
				}
				if got, neg := supplyBefore.SafeSub(supplyOf()...); neg || !got.Equal(burned) {
					return failf("C15/burn-amount", "%s: the supply fell by %s; the deposits burned in this step sum to %s", desc, got, burned)
				}
				if !burned.IsZero() {
					labels["deposit-burned"] = true
				}
				if len(refund) > 0 {
					labels["deposit-refunded"] = true
				}
			}
			if op.What > 0 && !next.IsZero() {
				labels["advance-to-deadline"] = true
			}
		}
		if fl := books(desc); fl != nil {
			return fl
		}
	}

	openKinds := map[string]bool{}
	concurrent := 0
	for _, p := range props {
		openKinds[p.TypeURL] = true
		concurrent++
	}
	ended := labels["tally-passed"] || labels["tally-failed"] || labels["rejected"] || labels["dropped-at-deposit-deadline"] || labels["cancelled"]
	nontrivial := ended && ((concurrent >= 2 && len(openKinds) >= 2) || labels["custom-params-changed-while-open"])
	var ls []string
	for l := range labels {
		ls = append(ls, l)
	}
	sortStrings(ls)
	ks := ""
	for _, op := range c.Ops {
		ks += op.Kind[:1]
	}
	rec.Case(ev.Sig(c.MinDepositFX, c.QuorumPct, ks, strings.Join(ls, ",")), nontrivial, ls...)
	if nontrivial && rec.WantSample() {
		rec.Sample(c)
	}
	return nil
}

func init() { registerReplay("C15", runC15) }

func TestC15(t *testing.T) { drive(t, "C15", genC15, runC15) }
