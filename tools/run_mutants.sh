#!/bin/bash
# usage: tools/run_mutants.sh [pattern]   -- applies each mutants/<PROP>-*.diff to /repo, runs ./check PROP quick, expects exit 1, reverts.
export VERIF_EVIDENCE_DIR=/verif/.work/evidence-modified-tree   # keep /verif/evidence for runs on the unchanged tree
cd /verif
for d in mutants/${1:-}*.diff; do
  prop=$(basename $d | cut -d- -f1)
  git -C /repo apply /verif/$d || { echo "APPLY-FAILED $d"; continue; }
  ./check $prop quick > /tmp/mut.out 2>&1; rc=$?
  git -C /repo checkout -- .
  nviol=$(grep -c '^VIOLATION' /tmp/mut.out)
  echo "$(basename $d): exit=$rc violations=$nviol $(grep -m1 'cases,' /tmp/mut.out)"
done
rm -rf /verif/replays/found
