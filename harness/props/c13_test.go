package props

import (
	"bytes"
	"fmt"
	"testing"
	"time"

	sdkmath "cosmossdk.io/math"
	storetypes "cosmossdk.io/store/types"
	sdk "github.com/cosmos/cosmos-sdk/types"
	"pgregory.net/rapid"

	fxtypes "github.com/functionx/fx-core/v8/types"
	crosschainkeeper "github.com/functionx/fx-core/v8/x/crosschain/keeper"
	crosschaintypes "github.com/functionx/fx-core/v8/x/crosschain/types"

	"verif/harness/ev"
	"verif/harness/sim"
)

// ---------------------------------------------------------------------------------------------
// C13 — oracle registry one-to-one; stake recoverable; only missed signing is slashed.
// Histories on a chain module with freshly approved oracles: bond (amount below / inside / above the
// bounds, colliding bridger / external address), add-delegate, re-delegate, edit-bridger,
// withdraw-reward, governance list updates (within / beyond the 30 % cap), per-oracle confirmations,
// end blocks past the signed window, unbond before / after the unbonding time (and twice), validator
// slashing. Reference model of the registry and of each oracle's stake.
// ---------------------------------------------------------------------------------------------

type c13Op struct {
	Kind string `json:"kind"`
	O    int    `json:"o"`
	P    int    `json:"p"` // second oracle (collisions)
	Amt  int64  `json:"amt"`
	Mask uint32 `json:"mask"`
	Val  int    `json:"val"`
	What int    `json:"what"`
}

type c13Case struct {
	N            int     `json:"n_oracles"`
	Chain        string  `json:"chain"`
	SignedWindow uint64  `json:"signed_window"`
	SlashPct     int64   `json:"slash_fraction_pct"`
	Ops          []c13Op `json:"ops"`
}

func genC13(t *rapid.T) c13Case {
	c := c13Case{N: rapid.IntRange(2, 5).Draw(t, "n"), Chain: rapid.SampledFrom(omChains).Draw(t, "chain"), SignedWindow: rapid.Uint64Range(2, 4).Draw(t, "sw"), SlashPct: rapid.SampledFrom([]int64{0, 1, 10, 50, 100}).Draw(t, "slash")}
	max := 35
	if thorough() {
		max = 90
	}
	n := rapid.IntRange(5, max).Draw(t, "nops")
	kinds := []string{"bond", "bond", "adddelegate", "redelegate", "editbridger", "withdrawreward", "govset", "govset", "confirm", "confirm", "confirm", "endblock", "endblock", "endblock", "endblock", "unbond", "unbond", "mature", "slashval", "removeall", "bridgecall"}
	// prefix: everybody bonds, oracle 0 small (so that governance may remove it within the 30 % cap)
	late := -1
	if c.N >= 3 && rapid.Bool().Draw(t, "late") {
		late = c.N - 1 // this oracle joins later (possibly with somebody else's bridger / external address)
	}
	for i := 0; i < c.N; i++ {
		amt := int64(1000)
		if i == 0 {
			amt = 100
		}
		if i != late {
			c.Ops = append(c.Ops, c13Op{Kind: "bond", O: i, Amt: amt, Val: i % 3})
		}
	}
	for i := 0; i < n; i++ {
		if rapid.IntRange(0, 11).Draw(t, "lifecycle") == 0 {
			// the complete life cycle of one oracle: removal, unbonding period, withdrawal, second withdrawal
			o := rapid.SampledFrom([]int{0, 0, 0, 1}).Draw(t, "lo")
			early := rapid.Bool().Draw(t, "early")
			c.Ops = append(c.Ops, c13Op{Kind: "removeall", O: o})
			if early {
				c.Ops = append(c.Ops, c13Op{Kind: "unbond", O: o})
			}
			c.Ops = append(c.Ops, c13Op{Kind: "mature"}, c13Op{Kind: "unbond", O: o}, c13Op{Kind: "unbond", O: o})
			continue
		}
		if rapid.IntRange(0, 11).Draw(t, "rejoin") == 0 {
			// an oracle misses the signed window, is penalised, pays and comes back, confirms only what
			// was created since it came back; the windows of everything older then pass
			var ops []c13Op
			for j := uint64(0); j < c.SignedWindow+2; j++ {
				ops = append(ops, c13Op{Kind: "endblock"})
			}
			ops = append(ops, c13Op{Kind: "adddelegate", O: 0, Amt: rapid.SampledFrom([]int64{100, 500}).Draw(t, "radd")})
			for j := uint64(0); j < c.SignedWindow+2; j++ {
				if rapid.Bool().Draw(t, "rconfirm") {
					ops = append(ops, c13Op{Kind: "confirm", O: 0, What: 4})
				}
				ops = append(ops, c13Op{Kind: "endblock"})
			}
			c.Ops = append(c.Ops, ops...)
			continue
		}
		if rapid.IntRange(0, 11).Draw(t, "rotate") == 0 {
			// an outgoing bridge call is confirmed by everybody, then one oracle rotates its bridger, then the signed window passes
			c.Ops = append(c.Ops, c13Op{Kind: "bridgecall"})
			for o := 0; o < c.N; o++ {
				c.Ops = append(c.Ops, c13Op{Kind: "confirm", O: o, What: 0})
			}
			c.Ops = append(c.Ops, c13Op{Kind: "editbridger", O: rapid.IntRange(0, c.N-1).Draw(t, "ro"), P: rapid.IntRange(0, 9).Draw(t, "rp"), What: 1})
			for j := uint64(0); j < c.SignedWindow+2; j++ {
				c.Ops = append(c.Ops, c13Op{Kind: "endblock"})
			}
			continue
		}
		if late >= 0 && rapid.IntRange(0, 9).Draw(t, "latebond") == 0 {
			c.Ops = append(c.Ops, c13Op{Kind: "bond", O: late, P: rapid.IntRange(0, c.N-2).Draw(t, "lp"), Amt: 500, Val: 1, What: rapid.SampledFrom([]int{0, 0, 4, 5}).Draw(t, "lwhat")})
			continue
		}
		c.Ops = append(c.Ops, c13Op{Kind: rapid.SampledFrom(kinds).Draw(t, "kind"), O: rapid.IntRange(0, c.N-1).Draw(t, "o"), P: rapid.IntRange(0, c.N-1).Draw(t, "p"),
			Amt: rapid.SampledFrom([]int64{1, 99, 100, 101, 500, 1000, 1001, 5000}).Draw(t, "amt"), Mask: rapid.Uint32Range(0, 1<<uint(c.N)-1).Draw(t, "mask"),
			Val: rapid.IntRange(0, 2).Draw(t, "val"), What: rapid.IntRange(0, 5).Draw(t, "what")})
	}
	return c
}

type c13Model struct {
	bonded      map[int]bool
	transferred map[int]sdkmath.Int // sum of what the oracle transferred into its stake
	slashPaid   map[int]sdkmath.Int
	bridgerOf   map[int]string
	extOf       map[int]string
	confirmed   map[string]bool // oracle/objectkey
	removedAt   map[int]time.Time
	withdrawn   map[int]bool
	joinedAt    map[int]int64 // height at which the oracle last joined (bond, or back online after paying a penalty)
}

func runC13(c c13Case, rec *ev.Recorder) *Failure {
	f := base()
	ctx, _ := f.Ctx.CacheContext()
	ch := c.Chain
	k := f.Keeper(ch)
	gov := sim.GovAddr.String()
	const thr, mult = int64(100), int64(10)
	p := k.GetParams(ctx)
	p.DelegateThreshold = sim.FxCoin(thr)
	p.DelegateMultiple = mult
	p.SignedWindow = c.SignedWindow
	p.SlashFraction = sdkmath.LegacyNewDecWithPrec(c.SlashPct, 2)
	if r := f.RunMsg(ctx, &crosschaintypes.MsgUpdateParams{ChainName: ch, Authority: gov, Params: p}); !r.OK() {
		return failf("harness", "params: %v", r.Err)
	}
	keys := make([]sim.OracleKeys, c.N)
	approved := map[int]bool{}
	var all []string
	for i := range keys {
		keys[i] = sim.NewOracleKeys(ch, i)
		all = append(all, keys[i].Oracle.Acc().String())
		approved[i] = true
		f.Mint(ctx, keys[i].Oracle.Acc(), sim.FxCoin(100_000))
	}
	if r := f.RunMsg(ctx, &crosschaintypes.MsgUpdateChainOracles{ChainName: ch, Authority: gov, Oracles: all}); !r.OK() {
		return failf("harness", "approve: %v", r.Err)
	}
	m := &c13Model{bonded: map[int]bool{}, transferred: map[int]sdkmath.Int{}, slashPaid: map[int]sdkmath.Int{}, bridgerOf: map[int]string{}, extOf: map[int]string{}, confirmed: map[string]bool{}, removedAt: map[int]time.Time{}, withdrawn: map[int]bool{}, joinedAt: map[int]int64{}}
	labels := map[string]bool{}
	height := ctx.BlockHeight()
	valSlashed := false
	unbondingTime, _ := f.App.StakingKeeper.UnbondingTime(ctx)

	// registry bijection from the raw stores
	registry := func(desc string) *Failure {
		st := ctx.KVStore(f.App.GetKey(ch))
		recs := map[string]crosschaintypes.Oracle{}
		for _, o := range k.GetAllOracles(ctx, false) {
			recs[o.OracleAddress] = o
		}
		seenB, seenE := map[string]string{}, map[string]string{}
		for addr, o := range recs {
			if prev, dup := seenB[o.BridgerAddress]; dup {
				return failf("C13/registry/bridger-shared", "%s: bridger %s belongs to oracle records %s and %s", desc, o.BridgerAddress, prev, addr)
			}
			if prev, dup := seenE[o.ExternalAddress]; dup {
				return failf("C13/registry/external-shared", "%s: external address %s belongs to oracle records %s and %s", desc, o.ExternalAddress, prev, addr)
			}
			seenB[o.BridgerAddress], seenE[o.ExternalAddress] = addr, addr
			if got, ok := k.GetOracleAddrByBridgerAddr(ctx, o.GetBridger()); !ok || got.String() != addr {
				return failf("C13/registry/bridger-index", "%s: record %s has bridger %s but the bridger index says %v (%v)", desc, addr, o.BridgerAddress, got, ok)
			}
			if got, ok := k.GetOracleAddrByExternalAddr(ctx, o.ExternalAddress); !ok || got.String() != addr {
				return failf("C13/registry/external-index", "%s: record %s has external address %s but the external index says %v (%v)", desc, addr, o.ExternalAddress, got, ok)
			}
		}
		for _, pre := range [][]byte{crosschaintypes.OracleAddressByBridgerKey, crosschaintypes.OracleAddressByExternalKey} {
			it := storetypes.KVStorePrefixIterator(st, pre)
			for ; it.Valid(); it.Next() {
				o, ok := recs[sdk.AccAddress(it.Value()).String()]
				if !ok {
					it.Close()
					return failf("C13/registry/dangling-index", "%s: index entry %x points at %s which has no oracle record", desc, it.Key(), sdk.AccAddress(it.Value()))
				}
				tail := it.Key()[len(pre):]
				if bytes.Equal(pre, crosschaintypes.OracleAddressByBridgerKey) {
					if !bytes.Equal(tail, o.GetBridger().Bytes()) && string(tail) != o.BridgerAddress {
						it.Close()
						return failf("C13/registry/stale-bridger-index", "%s: bridger index entry %x points at %s whose bridger is %s", desc, it.Key(), o.OracleAddress, o.BridgerAddress)
					}
				} else if string(tail) != o.ExternalAddress {
					it.Close()
					return failf("C13/registry/stale-external-index", "%s: external index entry %q points at %s whose external address is %s", desc, tail, o.OracleAddress, o.ExternalAddress)
				}
			}
			it.Close()
		}
		return nil
	}
	stakeChecks := func(desc string) *Failure {
		for i := range keys {
			o, found := k.GetOracle(ctx, keys[i].Oracle.Acc())
			if !found {
				continue
			}
			want := m.transferred[i]
			if !o.DelegateAmount.Equal(want) {
				return failf("C13/stake-record", "%s: oracle %d's recorded stake is %s but it transferred %s", desc, i, o.DelegateAmount, want)
			}
			if o.Online && !valSlashed {
				tok, err := k.GetOracleDelegateToken(ctx, o.GetDelegateAddress(ch), o.GetValidator())
				if _, wasRemoved := m.removedAt[i]; wasRemoved && (err != nil || !tok.Equal(o.DelegateAmount)) {
					return failf("C13/stake-delegated/back-online-after-governance-removal", "%s: oracle %d was removed by governance (its stake was undelegated), re-approved and brought back online by an add-delegate: it records %s (power %s) but only %v is delegated on its behalf", desc, i, o.DelegateAmount, o.GetPower(), tok)
				}
				if err != nil || !tok.Equal(o.DelegateAmount) {
					return failf("C13/stake-delegated", "%s: oracle %d records %s but %v is delegated on its behalf (%v)", desc, i, o.DelegateAmount, tok, err)
				}
			}
		}
		return nil
	}
	objKey := func(kind string, n uint64) string { return fmt.Sprintf("%s/%d", kind, n) }

	for si, op := range c.Ops {
		o := op.O % c.N
		desc := fmt.Sprintf("step %d %+v", si, op)
		oracleAcc := keys[o].Oracle.Acc()
		switch op.Kind {
		case "bond":
			bridger, ext := keys[o].Bridger.Acc().String(), keys[o].ExtAddr
			if op.What == 4 { // collide with another oracle's bridger
				bridger = keys[op.P%c.N].Bridger.Acc().String()
			}
			if op.What == 5 { // collide with another oracle's external address
				ext = keys[op.P%c.N].ExtAddr
			}
			wasApproved := k.IsProposalOracle(ctx, oracleAcc.String())
			balBefore := f.App.BankKeeper.GetBalance(ctx, oracleAcc, fxtypes.DefaultDenom).Amount
			r := f.RunMsg(ctx, &crosschaintypes.MsgBondedOracle{ChainName: ch, OracleAddress: oracleAcc.String(), BridgerAddress: bridger, ExternalAddress: ext,
				ValidatorAddress: f.ValKeys[op.Val%len(f.ValKeys)].Val().String(), DelegateAmount: sim.FxCoin(op.Amt)})
			if r.OK() {
				if !wasApproved {
					return failf("C13/bond-without-approval", "%s: an oracle that governance has not approved bonded", desc)
				}
				if op.Amt < thr || op.Amt > thr*mult {
					return failf("C13/bond-outside-bounds", "%s: bonded %d FX outside [%d, %d]", desc, op.Amt, thr, thr*mult)
				}
				if paid := balBefore.Sub(f.App.BankKeeper.GetBalance(ctx, oracleAcc, fxtypes.DefaultDenom).Amount); !paid.Equal(sim.Fx(op.Amt)) {
					return failf("C13/bond-amount", "%s: the oracle paid %s for a stake of %d FX", desc, paid, op.Amt)
				}
				m.bonded[o] = true
				m.transferred[o] = sim.Fx(op.Amt)
				m.slashPaid[o] = sdkmath.ZeroInt()
				m.bridgerOf[o], m.extOf[o] = bridger, ext
				delete(m.withdrawn, o)
				m.joinedAt[o] = height
				labels["bond"] = true
			}
		case "adddelegate":
			if _, wasRemoved := m.removedAt[o]; wasRemoved && isKnown("C13/stake-delegated/back-online-after-governance-removal") {
				rec.Exclude("add-delegate by an oracle that governance removed earlier and whose record still exists (known finding)")
				break
			}
			rec0, found := k.GetOracle(ctx, oracleAcc)
			balBefore := f.App.BankKeeper.GetBalance(ctx, oracleAcc, fxtypes.DefaultDenom).Amount
			r := f.RunMsg(ctx, &crosschaintypes.MsgAddDelegate{ChainName: ch, OracleAddress: oracleAcc.String(), Amount: sim.FxCoin(op.Amt)})
			if r.OK() && found {
				penalty := rec0.GetSlashAmount(k.GetSlashFraction(ctx))
				if penalty.GT(rec0.DelegateAmount) {
					return failf("C13/penalty-exceeds-stake", "%s: penalty %s > stake %s", desc, penalty, rec0.DelegateAmount)
				}
				paid := balBefore.Sub(f.App.BankKeeper.GetBalance(ctx, oracleAcc, fxtypes.DefaultDenom).Amount)
				if !paid.Equal(sim.Fx(op.Amt)) {
					return failf("C13/adddelegate-amount", "%s: the oracle paid %s for an add-delegate of %d FX", desc, paid, op.Amt)
				}
				m.transferred[o] = m.transferred[o].Add(sim.Fx(op.Amt).Sub(penalty))
				m.slashPaid[o] = m.slashPaid[o].Add(penalty)
				after, _ := k.GetOracle(ctx, oracleAcc)
				if after.DelegateAmount.LT(sim.Fx(thr)) || after.DelegateAmount.GT(sim.Fx(thr*mult)) {
					return failf("C13/stake-outside-bounds", "%s: stake %s outside the bounds after add-delegate", desc, after.DelegateAmount)
				}
				if after.SlashTimes != 0 {
					return failf("C13/penalty-not-cleared", "%s: slash counter %d after the penalty was paid", desc, after.SlashTimes)
				}
				if penalty.IsPositive() {
					labels["penalty-paid-on-adddelegate"] = true
				}
				if !rec0.Online && after.Online {
					m.joinedAt[o] = height
					labels["rejoined-after-penalty"] = true
				}
			}
		case "redelegate":
			f.RunMsg(ctx, &crosschaintypes.MsgReDelegate{ChainName: ch, OracleAddress: oracleAcc.String(), ValidatorAddress: f.ValKeys[op.Val%len(f.ValKeys)].Val().String()})
		case "editbridger":
			nb := sim.CosmosKey("c13-newbridger/"+ch, op.P).Acc()
			if op.What%2 == 0 {
				nb = keys[op.P%c.N].Bridger.Acc() // possibly taken
			}
			// On this snapshot MsgEditBridger cannot pass the message router: its stateless validation demands a validator-operator
			// prefix which the handler then refuses (DESIGN section 10). The machine calls the message server's method directly, i.e. it
			// checks the handler as it behaves once that validation lets a message through.
			msg := &crosschaintypes.MsgEditBridger{ChainName: ch, OracleAddress: oracleAcc.String(), BridgerAddress: nb.String()}
			cc, write := ctx.CacheContext()
			if _, err := crosschainkeeper.NewMsgServerImpl(k).EditBridger(cc, msg); err == nil {
				write()
				m.bridgerOf[o] = nb.String()
				labels["edit-bridger"] = true
			}
		case "bridgecall":
			// an outgoing bridge call without tokens (an object every online oracle has to confirm within the signed window). It needs
			// an observed external height; the fixture records one the way any observed event would
			if k.GetLastObservedBlockHeight(ctx).ExternalBlockHeight == 0 {
				k.SetLastObservedBlockHeight(ctx, 1000, uint64(height))
			}
			u := f.Users[0]
			if f.RunMsg(ctx, &crosschaintypes.MsgBridgeCall{ChainName: ch, Sender: u.Acc().String(), Refund: u.Acc().String(), To: sim.ExtAddrN(ch, "c13to", 1), Data: "01", Value: sdkmath.ZeroInt()}).OK() {
				labels["bridge-call"] = true
			}
		case "withdrawreward":
			f.RunMsg(ctx, &crosschaintypes.MsgWithdrawReward{ChainName: ch, OracleAddress: oracleAcc.String()})
		case "govset", "removeall":
			var list []string
			na := map[int]bool{}
			for i := range keys {
				if op.Kind == "govset" && op.Mask&(1<<uint(i)) != 0 || op.Kind == "removeall" && i != o {
					list = append(list, keys[i].Oracle.Acc().String())
					na[i] = true
				}
			}
			if len(list) == 0 {
				break
			}
			// the 30 % cap
			totalPower, removedPower := sdkmath.ZeroInt(), sdkmath.ZeroInt()
			for i := range keys {
				if or, found := k.GetOracle(ctx, keys[i].Oracle.Acc()); found && or.Online {
					totalPower = totalPower.Add(or.GetPower())
					if approved[i] && !na[i] {
						removedPower = removedPower.Add(or.GetPower())
					}
				}
			}
			r := f.RunMsg(ctx, &crosschaintypes.MsgUpdateChainOracles{ChainName: ch, Authority: gov, Oracles: list})
			if r.OK() {
				if removedPower.IsPositive() && removedPower.MulRaw(100).GTE(totalPower.MulRaw(30)) {
					return failf("C13/removal-cap", "%s: governance removed %s of %s online power (>= 30%%) in one update", desc, removedPower, totalPower)
				}
				for i := range keys {
					if approved[i] && !na[i] {
						if _, found := k.GetOracle(ctx, keys[i].Oracle.Acc()); found {
							m.removedAt[i] = ctx.BlockTime()
							labels["removed-by-governance"] = true
						}
					}
				}
				approved = na
			}
		case "confirm":
			k.IterateOracleSets(ctx, false, func(os *crosschaintypes.OracleSet) bool {
				if op.What == 4 && os.Height < uint64(m.joinedAt[o]) {
					return false // only what was created since the oracle (re)joined
				}
				if op.What <= 4 { // confirms all pending oracle sets
					if msg := f.OracleSetConfirmMsg(ctx, ch, keys[o], os); msg != nil {
						if f.RunMsg(ctx, msg).OK() {
							m.confirmed[fmt.Sprintf("%d/%s", o, objKey("os", os.Nonce))] = true
						}
					}
				}
				return false
			})
			if op.What <= 2 || op.What == 4 { // and all pending outgoing bridge calls
				k.IterateOutgoingBridgeCalls(ctx, func(bc *crosschaintypes.OutgoingBridgeCall) bool {
					if op.What == 4 && bc.BlockHeight < uint64(m.joinedAt[o]) {
						return false
					}
					if msg := f.BridgeCallConfirmMsg(ctx, ch, keys[o], bc); msg != nil {
						if f.RunMsg(ctx, msg).OK() {
							m.confirmed[fmt.Sprintf("%d/%s", o, objKey("bc", bc.Nonce))] = true
							labels["bridge-call-confirmed"] = true
						}
					}
					return false
				})
			}
		case "endblock":
			height++
			ctx = ctx.WithBlockHeight(height).WithBlockTime(ctx.BlockTime().Add(5 * time.Second))
			onlineBefore := map[int]crosschaintypes.Oracle{}
			for i := range keys {
				if or, found := k.GetOracle(ctx, keys[i].Oracle.Acc()); found && or.Online {
					onlineBefore[i] = or
				}
			}
			// objects that justify a penalty at this height, per oracle
			justified := map[int]bool{}
			if uint64(height) > c.SignedWindow {
				k.IterateOracleSets(ctx, false, func(os *crosschaintypes.OracleSet) bool {
					if os.Height+c.SignedWindow <= uint64(height) {
						for i, or := range onlineBefore {
							_ = or
							if uint64(m.joinedAt[i]) <= os.Height && k.GetOracleSetConfirm(ctx, os.Nonce, keys[i].Oracle.Acc()) == nil {
								justified[i] = true
							}
						}
					}
					return false
				})
				k.IterateOutgoingBridgeCalls(ctx, func(bc *crosschaintypes.OutgoingBridgeCall) bool {
					if bc.BlockHeight+c.SignedWindow <= uint64(height) {
						for i := range onlineBefore {
							if uint64(m.joinedAt[i]) <= bc.BlockHeight && !k.HasBridgeCallConfirm(ctx, bc.Nonce, keys[i].Oracle.Acc()) {
								justified[i] = true
							}
						}
					}
					return false
				})
			}
			if err := func() (err error) {
				defer func() {
					if r := recover(); r != nil {
						err = fmt.Errorf("%v", r)
					}
				}()
				k.EndBlocker(ctx)
				return nil
			}(); err != nil {
				return failf("C13/endblock-panic", "%s: %v", desc, err)
			}
			for i, before := range onlineBefore {
				after, _ := k.GetOracle(ctx, keys[i].Oracle.Acc())
				if !after.Online {
					if !justified[i] {
						return failf("C13/penalised-without-missed-signing", "%s: oracle %d (start height %d) was taken offline at height %d although it left nothing unconfirmed for the signed window %d", desc, i, before.StartHeight, height, c.SignedWindow)
					}
					if after.SlashTimes != before.SlashTimes+1 {
						return failf("C13/slash-counter", "%s: slash counter %d -> %d", desc, before.SlashTimes, after.SlashTimes)
					}
					labels["slashed-for-missed-signing"] = true
				} else if justified[i] {
					labels["unconfirmed-but-not-slashed"] = true // lenient is allowed by the statement ("only")
				}
			}
		case "slashval":
			v, err := f.App.StakingKeeper.GetValidator(ctx, f.ValKeys[op.Val%len(f.ValKeys)].Val())
			if err == nil && v.IsBonded() {
				cons, _ := v.GetConsAddr()
				height++
				ctx = ctx.WithBlockHeight(height)
				if _, err := f.App.StakingKeeper.Slash(ctx, cons, height-1, v.ConsensusPower(sdk.DefaultPowerReduction), sdkmath.LegacyNewDecWithPrec(5, 2)); err == nil {
					valSlashed = true
				}
			}
		case "mature":
			// the unbonding period passes: the staking end blocker completes matured unbondings
			height++
			ctx = ctx.WithBlockHeight(height).WithBlockTime(ctx.BlockTime().Add(unbondingTime + time.Hour))
			if _, err := f.App.StakingKeeper.BlockValidatorUpdates(ctx); err != nil {
				return failf("harness", "staking end block: %v", err)
			}
			labels["unbonding-period-passed"] = true
		case "unbond":
			rec0, found := k.GetOracle(ctx, oracleAcc)
			balBefore := f.App.BankKeeper.GetBalance(ctx, oracleAcc, fxtypes.DefaultDenom).Amount
			var delegateBal sdkmath.Int
			if found {
				delegateBal = f.App.BankKeeper.GetBalance(ctx, rec0.GetDelegateAddress(ch), fxtypes.DefaultDenom).Amount
			}
			r := f.RunMsg(ctx, &crosschaintypes.MsgUnbondedOracle{ChainName: ch, OracleAddress: oracleAcc.String()})
			removed, wasRemoved := m.removedAt[o]
			matured := wasRemoved && !ctx.BlockTime().Before(removed.Add(unbondingTime))
			if r.OK() {
				if !found || approved[o] || rec0.Online {
					return failf("C13/unbond-accepted", "%s: withdrawal accepted for an oracle that is still approved / online / absent (found=%v)", desc, found)
				}
				if m.withdrawn[o] {
					return failf("C13/withdrawn-twice", "%s: oracle %d withdrew its stake a second time", desc, o)
				}
				penalty := rec0.GetSlashAmount(k.GetSlashFraction(ctx))
				got := f.App.BankKeeper.GetBalance(ctx, oracleAcc, fxtypes.DefaultDenom).Amount.Sub(balBefore)
				want := delegateBal.Sub(penalty)
				if want.IsNegative() { // a validator slash left less than the penalty: the penalty is capped at what is left
					want = sdkmath.ZeroInt()
				}
				if !got.Equal(want) {
					return failf("C13/withdraw-amount", "%s: the oracle received %s, the delegate account held %s and the penalty is %s", desc, got, delegateBal, penalty)
				}
				if !matured {
					// the records are deleted while the stake is still unbonding: it will land in an account nobody controls
					return failf("C13/withdraw-before-maturity", "%s: oracle %d's records were deleted and %s paid out %s after its removal, before the unbonding period (%s) has passed: the stake of %s still unbonding is left behind in the key-less delegate account", desc, o, got, ctx.BlockTime().Sub(removed), unbondingTime, rec0.DelegateAmount)
				}
				if k.HasOracle(ctx, oracleAcc) || k.HasOracleAddrByBridgerAddr(ctx, rec0.GetBridger()) || k.HasOracleAddrByExternalAddr(ctx, rec0.ExternalAddress) {
					return failf("C13/records-left-after-withdraw", "%s: oracle records remain after the withdrawal", desc)
				}
				// the records are gone, so nothing may be left in the key-less delegate account's name
				da := rec0.GetDelegateAddress(ch)
				dels, _ := f.App.StakingKeeper.GetDelegatorDelegations(ctx, da, 10)
				ubds, _ := f.App.StakingKeeper.GetUnbondingDelegations(ctx, da, 10)
				stillDelegated := sdkmath.ZeroInt() // share dust below one base unit (after a validator slash) is not counted
				for _, d := range dels {
					if va, err := sdk.ValAddressFromBech32(d.ValidatorAddress); err == nil {
						if v, err := f.App.StakingKeeper.GetValidator(ctx, va); err == nil {
							stillDelegated = stillDelegated.Add(v.TokensFromShares(d.Shares).TruncateInt())
						}
					}
				}
				if left := f.App.BankKeeper.GetBalance(ctx, da, fxtypes.DefaultDenom).Amount; stillDelegated.GT(sdkmath.NewInt(1000)) || len(ubds) > 0 || left.IsPositive() {
					return failf("C13/stake-left-behind-after-withdraw", "%s: oracle %d withdrew (%s paid out) and its records were deleted, but its delegate account still has %s delegated, %d unbonding entries and a balance of %s: that stake can never be recovered", desc, o, got, stillDelegated, len(ubds), left)
				}
				m.withdrawn[o] = true
				delete(m.bonded, o)
				delete(m.removedAt, o)
				labels["stake-withdrawn-after-maturity"] = true
			} else if found && !approved[o] && !rec0.Online && matured && !m.withdrawn[o] {
				return failf("C13/stake-not-recoverable", "%s: governance removed oracle %d %s ago (unbonding period %s has passed, the stake has returned to its delegate account: %s) but the withdrawal is refused: %v", desc, o, ctx.BlockTime().Sub(removed), unbondingTime, delegateBal, r.Err)
			}
		}
		if fl := registry(desc); fl != nil {
			return fl
		}
		if fl := stakeChecks(desc); fl != nil {
			return fl
		}
	}
	nontrivial := labels["stake-withdrawn-after-maturity"] || labels["slashed-for-missed-signing"] || (labels["removed-by-governance"] && labels["unbonding-period-passed"])
	var ls []string
	for l := range labels {
		ls = append(ls, l)
	}
	sortStrings(ls)
	ks := ""
	for _, op := range c.Ops {
		ks += op.Kind[:3]
	}
	rec.Case(ev.Sig(c.N, c.SignedWindow, ks), nontrivial, ls...)
	if nontrivial && rec.WantSample() {
		rec.Sample(c)
	}
	return nil
}

func init() { registerReplay("C13", runC13) }

func TestC13(t *testing.T) { drive(t, "C13", genC13, runC13) }
