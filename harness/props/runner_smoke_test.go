package props

import (
	"fmt"
	"math/big"
	"testing"

	"github.com/functionx/fx-core/v8/contract"
	stakingtypes "github.com/functionx/fx-core/v8/x/staking/types"

	"verif/harness/evmprog"
	"verif/harness/sim"
)

func TestRunnerSmoke(t *testing.T) {
	f := base()
	ctx, _ := f.Ctx.CacheContext()
	ra, rb := sim.HexAddrN("runner", 1), sim.HexAddrN("runner", 2)
	f.InstallRunner(ctx, ra)
	f.InstallRunner(ctx, rb)
	usdt := f.Token("USDT")
	u := f.Users[0]
	// give runner A some usdt erc20 and FX
	data, _ := contract.GetFIP20().ABI.Pack("transfer", ra, big.NewInt(1000))
	if r := f.EthTx(ctx, u, &usdt.ERC20, nil, data, 500000); !r.Success() {
		t.Fatal(r)
	}
	tr, _ := contract.GetFIP20().ABI.Pack("transfer", f.Users[1].Hex(), big.NewInt(10))
	del, _ := stakingtypes.GetABI().Pack("delegateV2", f.ValKeys[0].Val().String(), big.NewInt(5000))
	inner := evmprog.Script{Epilogue: evmprog.EpiRevert, Calls: []evmprog.Call{{Target: usdt.ERC20, Data: tr, Note: "transfer 10 (will fail: B has none)", Catch: true}}}
	s := evmprog.Script{Epilogue: evmprog.EpiReturn, Calls: []evmprog.Call{
		{Target: usdt.ERC20, Data: tr, Note: "usdt.transfer(u1,10)"},
		{Target: rb, Sub: &inner, Catch: true, Note: "nested B"},
		{Target: sim.StakingAddr, Data: del, Value: 5000, Note: "delegateV2", Catch: true},
		{Target: usdt.ERC20, Kind: evmprog.KindStatic, Data: tr, Catch: true, Note: "static transfer"},
	}}
	fmt.Print(s.String())
	before := f.BalanceOf(ctx, usdt.ERC20, ra)
	r, outs := f.RunScript(ctx, u, ra, s, big.NewInt(5000), 3_000_000)
	fmt.Println("success", r.Success(), "err", r.Err, "gas", r.Resp.GasUsed, "vmerr", r.Resp.VmError)
	for i, o := range outs {
		fmt.Printf(" op%d success=%v retlen=%d ret=%q\n", i, o.Success, len(o.Ret), string(o.Ret))
	}
	fmt.Println("runner usdt", before, "->", f.BalanceOf(ctx, usdt.ERC20, ra))
	p := evmprog.Project(s, outs, r.Success())
	fmt.Print("projection:\n", p.String())
	for g := uint64(21000); g < 200000; g += 20000 {
		c2, _ := f.Ctx.CacheContext()
		f.InstallRunner(c2, ra)
		r2, o2 := f.RunScript(c2, u, ra, s, nil, g)
		fmt.Println("gas", g, "ok", r2.Success(), "err", r2.Err, len(o2))
	}
}
