package props

import (
	"encoding/json"
	"fmt"
	"os"
	"os/exec"
	"path/filepath"
	"strings"
	"testing"
	"time"

	"verif/harness/ev"
)

// ---------------------------------------------------------------------------------------------
// C17 — block execution is deterministic. A generated history (the C07 alphabet: crosschain claims,
// sends, batches, bridge calls, confirmations, oracle-list updates, governance proposals with votes by
// delegators and validator operators, erc20 conversions, account migration, signed EVM and Cosmos
// transactions, absent validators, time jumps) is executed on several replicas: fresh chains in this
// process and one in a re-executed child process with another GOMAXPROCS / TZ / GOGC (the wall clock
// differs by construction and Go randomises the order of every map range, so each replica sees its own
// map orders). Oracle: every replica reports the same application hash, FinalizeBlock response,
// transaction results and event list for every block, and the same outcome and events for every
// operation applied to the block being built.
// ---------------------------------------------------------------------------------------------

func c17Diff(a, b *c07Trace, who string) *Failure {
	n := len(a.Ops)
	if len(b.Ops) < n {
		n = len(b.Ops)
	}
	for i := 0; i < n; i++ {
		if a.Ops[i] != b.Ops[i] {
			return failf("C17/operation-outcome-differs", "operation %d differs between replica 0 and %s:\n  0: %s\n  %s: %s", i, who, clip(a.Ops[i], 1500), who, clip(b.Ops[i], 1500))
		}
	}
	if len(a.Ops) != len(b.Ops) {
		return failf("C17/operation-outcome-differs", "replica 0 applied %d operations, %s %d", len(a.Ops), who, len(b.Ops))
	}
	if len(a.Blocks) != len(b.Blocks) {
		return failf("C17/block-count-differs", "replica 0 executed %d blocks, %s %d", len(a.Blocks), who, len(b.Blocks))
	}
	for i := range a.Blocks {
		x, y := a.Blocks[i], b.Blocks[i]
		if x.Err != y.Err {
			return failf("C17/block-outcome-differs", "block %d: replica 0 %q, %s %q", x.Height, x.Err, who, y.Err)
		}
		for j := 0; j < len(x.TxResults) && j < len(y.TxResults); j++ {
			if x.TxResults[j] != y.TxResults[j] {
				return failf("C17/tx-result-differs", "block %d tx %d differs between replica 0 and %s:\n  0: %s\n  %s: %s", x.Height, j, who, clip(x.TxResults[j], 1500), who, clip(y.TxResults[j], 1500))
			}
		}
		for j := 0; j < len(x.Events) && j < len(y.Events); j++ {
			if x.Events[j] != y.Events[j] {
				return failf("C17/block-events-differ", "block %d event %d differs between replica 0 and %s:\n  0: %s\n  %s: %s", x.Height, j, who, clip(x.Events[j], 1500), who, clip(y.Events[j], 1500))
			}
		}
		if len(x.Events) != len(y.Events) || len(x.TxResults) != len(y.TxResults) {
			return failf("C17/block-events-differ", "block %d: replica 0 has %d events / %d tx results, %s %d / %d", x.Height, len(x.Events), len(x.TxResults), who, len(y.Events), len(y.TxResults))
		}
		if x.AppHash != y.AppHash {
			return failf("C17/app-hash-differs", "block %d: application hash %s on replica 0, %s on %s (same operations, same events)", x.Height, x.AppHash, y.AppHash, who)
		}
		if x.RespHash != y.RespHash {
			return failf("C17/finalize-response-differs", "block %d: the FinalizeBlock responses differ between replica 0 and %s although hash, tx results and events agree", x.Height, who)
		}
	}
	return nil
}

func clip(s string, n int) string {
	if len(s) > n {
		return s[:n] + "…"
	}
	return s
}

// c17Child executes the case in a fresh process and returns its trace.
func c17Child(c c07Case) (*c07Trace, error) {
	dir := replayDir()
	if err := os.MkdirAll(dir, 0o755); err != nil {
		return nil, err
	}
	in, err := os.CreateTemp(dir, "c17-case-*.json")
	if err != nil {
		return nil, err
	}
	defer os.Remove(in.Name())
	out := in.Name() + ".trace"
	defer os.Remove(out)
	b, _ := json.Marshal(c)
	if _, err := in.Write(b); err != nil {
		return nil, err
	}
	in.Close()
	cmd := exec.Command(os.Args[0], "-test.run", "^TestC17Child$", "-test.timeout", "600s")
	cmd.Env = append(os.Environ(), "VERIF_C17_CASE="+in.Name(), "VERIF_C17_OUT="+out, "GOMAXPROCS=1", "TZ=Pacific/Kiritimati", "GOGC=25", "VERIF_EV_DIR=")
	cmd.Dir = filepath.Dir(os.Args[0])
	if wd, err := os.Getwd(); err == nil {
		cmd.Dir = wd
	}
	outb, err := cmd.CombinedOutput()
	if err != nil {
		return nil, fmt.Errorf("child process: %v\n%s", err, clip(string(outb), 3000))
	}
	tb, err := os.ReadFile(out)
	if err != nil {
		return nil, fmt.Errorf("child trace: %v\n%s", err, clip(string(outb), 3000))
	}
	var tr c07Trace
	if err := json.Unmarshal(tb, &tr); err != nil {
		return nil, err
	}
	return &tr, nil
}

// TestC17Child is the replica side: not a check of its own.
func TestC17Child(t *testing.T) {
	in, out := os.Getenv("VERIF_C17_CASE"), os.Getenv("VERIF_C17_OUT")
	if in == "" || out == "" {
		t.Skip("replica process of TestC17 only")
	}
	b, err := os.ReadFile(in)
	if err != nil {
		t.Fatal(err)
	}
	var c c07Case
	if err := json.Unmarshal(b, &c); err != nil {
		t.Fatal(err)
	}
	tr := &c07Trace{}
	if fl := execC07(c, nil, tr); fl != nil && strings.HasPrefix(fl.Sig, "harness") {
		t.Fatalf("harness: %s", fl.Msg)
	}
	tb, _ := json.Marshal(tr)
	if err := os.WriteFile(out, tb, 0o644); err != nil {
		t.Fatal(err)
	}
}

func runC17(c c07Case, rec *ev.Recorder) *Failure {
	replicas := 2
	if thorough() {
		replicas = 3
	}
	var traces []*c07Trace
	for i := 0; i < replicas; i++ {
		tr := &c07Trace{}
		if fl := execC07(c, nil, tr); fl != nil && strings.HasPrefix(fl.Sig, "harness") {
			return fl
		}
		traces = append(traces, tr)
	}
	for i := 1; i < replicas; i++ {
		if fl := c17Diff(traces[0], traces[i], fmt.Sprintf("replica %d (same process)", i)); fl != nil {
			return fl
		}
	}
	start := time.Now()
	child, err := c17Child(c)
	if err != nil {
		return failf("harness", "%v", err)
	}
	if fl := c17Diff(traces[0], child, "the replica in a child process"); fl != nil {
		return fl
	}
	_ = start
	if os.Getenv("VERIF_DEBUG_TRACE") != "" {
		for _, o := range traces[0].Ops {
			fmt.Println("TRACE", clip(o, 400))
		}
	}
	// classification: which map-backed / order-sensitive paths the history went through
	labels := append([]string{}, traces[0].Labels...)
	has := map[string]bool{}
	for _, l := range labels {
		has[l] = true
	}
	txs, events := 0, 0
	for _, b := range traces[0].Blocks {
		txs += len(b.TxResults)
		events += len(b.Events)
	}
	nontrivial := (has["batch"] || has["bridgecall"] || has["validator-vote"] || has["migrate"] || strings.Contains(strings.Join(labels, ","), "proposal-ended")) && len(traces[0].Blocks) >= 3
	rec.Label("blocks", len(traces[0].Blocks))
	rec.Label("block-events", events)
	rec.Label("block-txs", txs)
	rec.Label("replicas", replicas+1)
	rec.Case(ev.Sig(c.NumOracles, c.NumChains, c.SignedWindow, c07History(c.Ops)), nontrivial, labels...)
	if nontrivial && rec.WantSample() {
		rec.Sample(c)
	}
	return nil
}

func init() { registerReplay("C17", runC17) }

func TestC17(t *testing.T) { drive(t, "C17", genC07, runC17) }
