package sim

import (
	"crypto/ecdsa"
	"fmt"
	"math/big"
	"runtime/debug"
	"strings"

	sdkmath "cosmossdk.io/math"
	codectypes "github.com/cosmos/cosmos-sdk/codec/types"
	cryptotypes "github.com/cosmos/cosmos-sdk/crypto/types"
	sdk "github.com/cosmos/cosmos-sdk/types"
	"github.com/cosmos/cosmos-sdk/types/tx/signing"
	authtypes "github.com/cosmos/cosmos-sdk/x/auth/types"
	govtypes "github.com/cosmos/cosmos-sdk/x/gov/types"
	"github.com/cosmos/gogoproto/proto"
	"github.com/ethereum/go-ethereum/common"
	ethtypes "github.com/ethereum/go-ethereum/core/types"
	"github.com/ethereum/go-ethereum/crypto"
	evmtypes "github.com/evmos/ethermint/x/evm/types"

	"verif/harness/evmprog"

	"github.com/functionx/fx-core/v8/contract"
	fxtypes "github.com/functionx/fx-core/v8/types"
	crosschainkeeper "github.com/functionx/fx-core/v8/x/crosschain/keeper"
	crosschaintypes "github.com/functionx/fx-core/v8/x/crosschain/types"
	erc20types "github.com/functionx/fx-core/v8/x/erc20/types"
)

var GovAddr = authtypes.NewModuleAddress(govtypes.ModuleName)

// AllChains lists the eight crosschain modules.
var AllChains = []string{"eth", "bsc", "polygon", "tron", "avalanche", "arbitrum", "optimism", "layer2"}

type OracleKeys struct {
	Oracle  Key
	Bridger Key
	Ext     *ecdsa.PrivateKey
	ExtAddr string // chain-formatted external address
}

func ExtKey(chain string, i int) *ecdsa.PrivateKey {
	k, err := crypto.ToECDSA(seedBytes("ext/"+chain, i))
	if err != nil {
		panic(err)
	}
	return k
}

func NewOracleKeys(chain string, i int) OracleKeys {
	ext := ExtKey(chain, i)
	return OracleKeys{
		Oracle:  CosmosKey("oracle/"+chain, i),
		Bridger: CosmosKey("bridger/"+chain, i),
		Ext:     ext,
		ExtAddr: crosschaintypes.ExternalAddrToStr(chain, crypto.PubkeyToAddress(ext.PublicKey).Bytes()),
	}
}

// ExtAddrN is a deterministic external (token / user) address on a chain.
func ExtAddrN(chain, role string, i int) string {
	return crosschaintypes.ExternalAddrToStr(chain, seedBytes("extaddr/"+chain+"/"+role, i)[:20])
}

func HexAddrN(role string, i int) common.Address {
	return common.BytesToAddress(seedBytes("hexaddr/"+role, i)[:20])
}

const (
	KindFX       = "fx"
	KindModule   = "module-owned"
	KindExternal = "externally-owned"
)

type Token struct {
	Name      string
	Kind      string
	Base      string            // base denom
	ERC20     common.Address    // paired contract
	Contracts map[string]string // chain -> external token contract
	Bridge    map[string]string // chain -> bridge denom
	Owner     int               // user index owning an external token (KindExternal)
}

type Fixture struct {
	*Chain
	Users   []Key
	Chains  []string
	Oracles map[string][]OracleKeys
	Tokens  []*Token
}

func (c *Chain) Keeper(chain string) crosschainkeeper.Keeper {
	switch chain {
	case "eth":
		return c.App.EthKeeper
	case "bsc":
		return c.App.BscKeeper
	case "polygon":
		return c.App.PolygonKeeper
	case "tron":
		return c.App.TronKeeper
	case "avalanche":
		return c.App.AvalancheKeeper
	case "arbitrum":
		return c.App.ArbitrumKeeper
	case "optimism":
		return c.App.OptimismKeeper
	case "layer2":
		return c.App.Layer2Keeper
	}
	panic("unknown chain " + chain)
}

// UserKeys returns n deterministic eth-key users.
func UserKeys(n int) []Key {
	us := make([]Key, n)
	for i := range us {
		us[i] = EthKey("user", i)
	}
	return us
}

func must(r Result, what string) {
	if !r.OK() {
		panic(fmt.Sprintf("fixture: %s: %v %s", what, r.Err, r.Panic))
	}
}

// SetupOracles approves and bonds n oracles on a chain through the real handlers.
// stakes are in whole FX; default 10 000 (= the default delegate threshold).
func (f *Fixture) SetupOracles(ctx sdk.Context, chain string, n int, stakes []int64) {
	var addrs []string
	var keys []OracleKeys
	for i := 0; i < n; i++ {
		ok := NewOracleKeys(chain, i)
		keys = append(keys, ok)
		addrs = append(addrs, ok.Oracle.Acc().String())
	}
	must(f.RunMsg(ctx, &crosschaintypes.MsgUpdateChainOracles{ChainName: chain, Authority: GovAddr.String(), Oracles: addrs}), "update oracles")
	for i, ok := range keys {
		stake := int64(10_000)
		if i < len(stakes) {
			stake = stakes[i]
		}
		f.Mint(ctx, ok.Oracle.Acc(), FxCoin(stake*20+100))
		f.Mint(ctx, ok.Bridger.Acc(), FxCoin(100))
		must(f.RunMsg(ctx, &crosschaintypes.MsgBondedOracle{
			ChainName:        chain,
			OracleAddress:    ok.Oracle.Acc().String(),
			BridgerAddress:   ok.Bridger.Acc().String(),
			ExternalAddress:  ok.ExtAddr,
			ValidatorAddress: f.ValKeys[i%len(f.ValKeys)].Val().String(),
			DelegateAmount:   FxCoin(stake),
		}), "bond oracle")
	}
	if f.Oracles == nil {
		f.Oracles = map[string][]OracleKeys{}
	}
	f.Oracles[chain] = keys
}

// SetClaimMeta fills bridger, chain, event nonce and block height of a claim (by type switch).
func SetClaimMeta(claim crosschaintypes.ExternalClaim, chain, bridger string, nonce, height uint64) {
	switch c := claim.(type) {
	case *crosschaintypes.MsgSendToFxClaim:
		c.ChainName, c.BridgerAddress, c.EventNonce, c.BlockHeight = chain, bridger, nonce, height
	case *crosschaintypes.MsgBridgeCallClaim:
		c.ChainName, c.BridgerAddress, c.EventNonce, c.BlockHeight = chain, bridger, nonce, height
	case *crosschaintypes.MsgBridgeCallResultClaim:
		c.ChainName, c.BridgerAddress, c.EventNonce, c.BlockHeight = chain, bridger, nonce, height
	case *crosschaintypes.MsgSendToExternalClaim:
		c.ChainName, c.BridgerAddress, c.EventNonce, c.BlockHeight = chain, bridger, nonce, height
	case *crosschaintypes.MsgBridgeTokenClaim:
		c.ChainName, c.BridgerAddress, c.EventNonce, c.BlockHeight = chain, bridger, nonce, height
	case *crosschaintypes.MsgOracleSetUpdatedClaim:
		c.ChainName, c.BridgerAddress, c.EventNonce, c.BlockHeight = chain, bridger, nonce, height
	default:
		panic(fmt.Sprintf("unknown claim type %T", claim))
	}
}

// WrapClaim packs a claim into MsgClaim signed (nominally) by wrapperBridger.
func WrapClaim(chain, wrapperBridger string, claim crosschaintypes.ExternalClaim) *crosschaintypes.MsgClaim {
	a, err := codectypes.NewAnyWithValue(claim)
	if err != nil {
		panic(err)
	}
	return &crosschaintypes.MsgClaim{ChainName: chain, BridgerAddress: wrapperBridger, Claim: a}
}

// WrapConfirm packs a confirmation into MsgConfirm.
func WrapConfirm(chain, wrapperBridger string, confirm crosschaintypes.Confirm) *crosschaintypes.MsgConfirm {
	a, err := codectypes.NewAnyWithValue(confirm.(proto.Message))
	if err != nil {
		panic(err)
	}
	return &crosschaintypes.MsgConfirm{ChainName: chain, BridgerAddress: wrapperBridger, Confirm: a}
}

// Vote submits one oracle's vote for a claim (the claim is mutated: bridger set).
func (f *Fixture) Vote(ctx sdk.Context, chain string, oracleIdx int, claim crosschaintypes.ExternalClaim, nonce, height uint64) Result {
	return f.VoteAs(ctx, chain, f.Oracles[chain][oracleIdx], claim, nonce, height)
}

// VoteAs submits a vote with explicit oracle keys.
func (f *Fixture) VoteAs(ctx sdk.Context, chain string, ok OracleKeys, claim crosschaintypes.ExternalClaim, nonce, height uint64) Result {
	SetClaimMeta(claim, chain, ok.Bridger.Acc().String(), nonce, height)
	return f.RunMsg(ctx, WrapClaim(chain, ok.Bridger.Acc().String(), claim))
}

// Observe has every oracle of the chain vote for the claim in index order until it is observed.
// Returns an error if any vote fails before the claim was observed.
func (f *Fixture) Observe(ctx sdk.Context, chain string, claim crosschaintypes.ExternalClaim, height uint64) (uint64, error) {
	k := f.Keeper(chain)
	nonce := k.GetLastObservedEventNonce(ctx) + 1
	for i := range f.Oracles[chain] {
		o, found := k.GetOracle(ctx, f.Oracles[chain][i].Oracle.Acc())
		if !found || !o.Online {
			continue
		}
		r := f.Vote(ctx, chain, i, claim, nonce, height)
		if !r.OK() {
			return nonce, &ObserveError{Vote: i, Err: r.Err, Panic: r.Panic}
		}
	}
	if k.GetLastObservedEventNonce(ctx) != nonce {
		return nonce, fmt.Errorf("claim nonce %d not observed after all votes", nonce)
	}
	return nonce, nil
}

// ObserveError: a vote of Observe failed (Panic holds the stack if the handler panicked).
type ObserveError struct {
	Vote  int
	Err   error
	Panic string
}

func (e *ObserveError) Error() string { return fmt.Sprintf("vote %d: %v", e.Vote, e.Err) }

// EthTxResult is the outcome of a message-level EVM transaction.
type EthTxResult struct {
	Resp  *evmtypes.MsgEthereumTxResponse
	Err   error // keeper-level error (tx not applied at all)
	Panic string
}

func (r EthTxResult) Success() bool {
	return r.Err == nil && r.Panic == "" && r.Resp != nil && !r.Resp.Failed()
}

// EthTx signs and executes an EVM tx through EvmKeeper.EthereumTx on a branch of ctx that is written
// only if the keeper returned no error (the EVM itself handles reverts internally).
func (c *Chain) EthTx(ctx sdk.Context, from Key, to *common.Address, value *big.Int, data []byte, gasLimit uint64) (out EthTxResult) {
	cctx, write := ctx.CacheContext()
	cctx = cctx.WithEventManager(sdk.NewEventManager())
	defer func() {
		if r := recover(); r != nil {
			out = EthTxResult{Err: fmt.Errorf("panic: %v", r), Panic: fmt.Sprintf("%v\n%s", r, debug.Stack())}
		}
	}()
	chainID := fxtypes.EIP155ChainID(ctx.ChainID())
	nonce := c.App.EvmKeeper.GetNonce(cctx, from.Hex())
	tx := evmtypes.NewTx(chainID, nonce, to, value, gasLimit, nil, nil, nil, data, nil)
	tx.From = from.Hex().Bytes()
	if err := tx.Sign(ethtypes.LatestSignerForChainID(chainID), ethSigner{from}); err != nil {
		return EthTxResult{Err: err}
	}
	res, err := c.App.EvmKeeper.EthereumTx(cctx, tx)
	if err != nil {
		return EthTxResult{Err: err}
	}
	write()
	return EthTxResult{Resp: res}
}

// Precompile / well-known addresses.
var (
	CrosschainAddr = common.HexToAddress(contract.CrossChainAddress)
	StakingAddr    = common.HexToAddress(contract.StakingAddress)
)

// ExecuteClaim calls crosschain.executeClaim(chain, nonce) from caller.
func (f *Fixture) ExecuteClaim(ctx sdk.Context, caller Key, chain string, nonce uint64) EthTxResult {
	data, err := crosschaintypes.GetABI().Pack("executeClaim", chain, new(big.Int).SetUint64(nonce))
	if err != nil {
		panic(err)
	}
	return f.EthTx(ctx, caller, &CrosschainAddr, nil, data, 3_000_000)
}

// BalanceOf reads an ERC-20 balance.
func (c *Chain) BalanceOf(ctx sdk.Context, token, holder common.Address) *big.Int {
	b, err := c.App.EvmKeeper.ERC20BalanceOf(ctx, token, holder)
	if err != nil {
		panic(fmt.Sprintf("balanceOf(%s,%s): %v", token, holder, err))
	}
	return b
}

func (c *Chain) TotalSupply(ctx sdk.Context, token common.Address) *big.Int {
	var res struct{ Value *big.Int }
	if err := c.App.EvmKeeper.QueryContract(ctx, common.BytesToAddress(authtypes.NewModuleAddress("erc20")), token, contract.GetFIP20().ABI, "totalSupply", &res); err != nil {
		panic(fmt.Sprintf("totalSupply(%s): %v", token, err))
	}
	return res.Value
}

// NewFixture builds a chain with users, oracles on the given chains (one 100%-power oracle each
// unless oraclesPerChain says otherwise) and the standard token set.
type FixtureOptions struct {
	Chain           Options
	NumUsers        int
	Chains          []string
	OraclesPerChain int
	Tokens          bool
}

func NewFixture(o FixtureOptions) *Fixture {
	if o.NumUsers == 0 {
		o.NumUsers = 4
	}
	users := UserKeys(o.NumUsers)
	for _, u := range users {
		o.Chain.Funded = append(o.Chain.Funded, u.Acc())
	}
	c := New(o.Chain)
	f := &Fixture{Chain: c, Users: users, Chains: o.Chains, Oracles: map[string][]OracleKeys{}}
	ctx := c.Ctx
	n := o.OraclesPerChain
	if n == 0 {
		n = 1
	}
	for _, ch := range o.Chains {
		f.SetupOracles(ctx, ch, n, nil)
	}
	if o.Tokens {
		f.SetupTokens(ctx)
	}
	return f
}

// SetupTokens registers: FX (wrapped, bridged on the first chain), a module-owned pair bridged
// on every fixture chain (a multi-chain alias token when there are >= 2 chains) and an
// externally-owned pair (FIP20 deployed and owned by user 0) bridged on every fixture chain.
func (f *Fixture) SetupTokens(ctx sdk.Context) {
	gov := GovAddr.String()
	// --- FX / WFX
	fxPair, found := f.App.Erc20Keeper.GetTokenPair(ctx, fxtypes.DefaultDenom)
	if !found { // registered by the erc20 genesis in this tree
		must(f.RunMsg(ctx, &erc20types.MsgRegisterCoin{Authority: gov, Metadata: fxtypes.GetFXMetaData()}), "register FX")
		fxPair, _ = f.App.Erc20Keeper.GetTokenPair(ctx, fxtypes.DefaultDenom)
	}
	fx := &Token{Name: "FX", Kind: KindFX, Base: fxtypes.DefaultDenom, ERC20: fxPair.GetERC20Contract(), Contracts: map[string]string{}, Bridge: map[string]string{}}
	if len(f.Chains) > 0 {
		ch := f.Chains[0]
		fx.Contracts[ch] = ExtAddrN(ch, "token-fx", 0)
		fx.Bridge[ch] = fxtypes.DefaultDenom
		if _, err := f.Observe(ctx, ch, &crosschaintypes.MsgBridgeTokenClaim{TokenContract: fx.Contracts[ch], Name: "Function X", Symbol: "FX", Decimals: 18}, 100); err != nil {
			panic(err)
		}
	}
	f.Tokens = append(f.Tokens, fx)

	// --- module-owned pair
	mod := &Token{Name: "USDT", Kind: KindModule, Base: "usdt", Contracts: map[string]string{}, Bridge: map[string]string{}}
	var aliases []string
	for _, ch := range f.Chains {
		mod.Contracts[ch] = ExtAddrN(ch, "token-usdt", 0)
		mod.Bridge[ch] = crosschaintypes.NewBridgeDenom(ch, mod.Contracts[ch])
		aliases = append(aliases, mod.Bridge[ch])
	}
	md := fxtypes.GetCrossChainMetadataManyToOne("Tether USD", "USDT", 18, aliases...)
	must(f.RunMsg(ctx, &erc20types.MsgRegisterCoin{Authority: gov, Metadata: md}), "register usdt")
	p, ok := f.App.Erc20Keeper.GetTokenPair(ctx, "usdt")
	if !ok {
		panic("usdt pair missing")
	}
	mod.ERC20 = p.GetERC20Contract()
	for _, ch := range f.Chains {
		if _, err := f.Observe(ctx, ch, &crosschaintypes.MsgBridgeTokenClaim{TokenContract: mod.Contracts[ch], Name: "Tether USD", Symbol: "USDT", Decimals: 18}, 101); err != nil {
			panic(err)
		}
	}
	f.Tokens = append(f.Tokens, mod)

	// --- externally-owned pair: FIP20 deployed by user 0 who mints the initial supply
	owner := f.Users[0]
	extAddr, err := f.App.Erc20Keeper.DeployUpgradableToken(ctx, owner.Hex(), "External Token", "EXT", 18)
	if err != nil {
		panic(err)
	}
	ext := &Token{Name: "EXT", Kind: KindExternal, Base: "ext", ERC20: extAddr, Contracts: map[string]string{}, Bridge: map[string]string{}}
	aliases = nil
	for _, ch := range f.Chains {
		ext.Contracts[ch] = ExtAddrN(ch, "token-ext", 0)
		ext.Bridge[ch] = crosschaintypes.NewBridgeDenom(ch, ext.Contracts[ch])
		aliases = append(aliases, ext.Bridge[ch])
	}
	must(f.RunMsg(ctx, &erc20types.MsgRegisterERC20{Authority: gov, Erc20Address: extAddr.String(), Aliases: aliases}), "register ext")
	for _, ch := range f.Chains {
		if _, err := f.Observe(ctx, ch, &crosschaintypes.MsgBridgeTokenClaim{TokenContract: ext.Contracts[ch], Name: "External Token", Symbol: "EXT", Decimals: 18}, 102); err != nil {
			panic(err)
		}
	}
	f.Tokens = append(f.Tokens, ext)
}

// MintERC20 mints an externally-owned FIP20 (by its owner) to a holder.
func (f *Fixture) MintERC20(ctx sdk.Context, t *Token, to common.Address, amount *big.Int) {
	data, err := contract.GetFIP20().ABI.Pack("mint", to, amount)
	if err != nil {
		panic(err)
	}
	r := f.EthTx(ctx, f.Users[t.Owner], &t.ERC20, nil, data, 1_000_000)
	if !r.Success() {
		panic(fmt.Sprintf("mint erc20: %v %v", r.Err, r.Resp))
	}
}

func (f *Fixture) Token(name string) *Token {
	for _, t := range f.Tokens {
		if strings.EqualFold(t.Name, name) {
			return t
		}
	}
	panic("no token " + name)
}

type ethSigner struct{ k Key }

func (s ethSigner) Sign(_ string, msg []byte, _ signing.SignMode) ([]byte, cryptotypes.PubKey, error) {
	sig, err := s.k.Priv.Sign(msg)
	return sig, s.k.Priv.PubKey(), err
}

func (s ethSigner) SignByAddress(_ sdk.Address, msg []byte, m signing.SignMode) ([]byte, cryptotypes.PubKey, error) {
	return s.Sign("", msg, m)
}

func BigInt(n int64) *big.Int { return big.NewInt(n) }

func IntFromBig(b *big.Int) sdkmath.Int { return sdkmath.NewIntFromBigInt(b) }

// InstallRunner places the Runner interpreter contract (see evmprog) at addr.
func (c *Chain) InstallRunner(ctx sdk.Context, addr common.Address) {
	if err := c.App.EvmKeeper.CreateContractWithCode(ctx, addr, evmprog.RunnerCode()); err != nil {
		panic(err)
	}
}

// RunScript sends the script to a Runner in one EVM transaction and decodes the per-op outcomes
// (from the return data, or from the revert data if the top frame reverted).
func (c *Chain) RunScript(ctx sdk.Context, from Key, runner common.Address, s evmprog.Script, value *big.Int, gasLimit uint64) (EthTxResult, []evmprog.Outcome) {
	r := c.EthTx(ctx, from, &runner, value, s.Encode(), gasLimit)
	if r.Resp == nil {
		return r, nil
	}
	return r, evmprog.DecodeOutcomes(r.Resp.Ret, s)
}
