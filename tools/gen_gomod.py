#!/usr/bin/env python3
"""Regenerate /verif/harness/go.mod from /repo/go.mod (replace is not transitive)."""
import re, sys, shutil
repo = sys.argv[1] if len(sys.argv) > 1 else "/repo"
out = sys.argv[2] if len(sys.argv) > 2 else "/verif/harness"
src = open(f"{repo}/go.mod").read()
reps = []
for blk in re.findall(r"^replace \((.*?)^\)", src, re.S | re.M):
    for line in blk.splitlines():
        line = line.split("//")[0].strip()
        if "=>" in line:
            reps.append(line)
for line in re.findall(r"^replace ([^()\n]+=>[^\n]+)$", src, re.M):
    reps.append(line.strip())
mod = "module verif/harness\n\ngo 1.23\n\nrequire (\n\tgithub.com/functionx/fx-core/v8 v8.0.0\n\tpgregory.net/rapid v1.3.0\n)\n\n"
mod += "replace github.com/functionx/fx-core/v8 => %s\n\nreplace (\n" % repo
for r in reps:
    mod += "\t" + r + "\n"
mod += ")\n"
open(f"{out}/go.mod", "w").write(mod)
shutil.copy(f"{repo}/go.sum", f"{out}/go.sum")
