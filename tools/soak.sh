#!/bin/bash
# usage: tools/soak.sh "<seeds>" [props...]  -- runs quick checks at several VERIF_SEED values on the unchanged tree, appends to soak_results.txt
cd /verif
SEEDS=${1:-"2 3 5"}; shift
PROPS=${@:-C01 C02 C03 C04 C05 C06 C07 C08 C09 C10 C11 C12 C13 C14 C15 C16 C17 C18 C19 C20}
[ -n "$(git -C /repo status --porcelain)" ] && { echo "/repo not clean"; exit 2; }
for s in $SEEDS; do
  for p in $PROPS; do
    VERIF_SEED=$s ./check $p quick > /tmp/soak.out 2>&1; rc=$?
    echo "seed=$s $p exit=$rc $(grep -a -m1 'cases,' /tmp/soak.out | sed 's/^.*seed=[0-9]*: //') violations=$(grep -a -c '^VIOLATION' /tmp/soak.out) known=$(grep -a -c '^KNOWN-FINDING' /tmp/soak.out)" | tee -a soak_results.txt
  done
done
