package props

import (
	"fmt"
	"math/big"
	"os"
	"sort"
	"strings"
	"testing"

	sdkmath "cosmossdk.io/math"
	sdk "github.com/cosmos/cosmos-sdk/types"
	authtypes "github.com/cosmos/cosmos-sdk/x/auth/types"
	banktypes "github.com/cosmos/cosmos-sdk/x/bank/types"
	transfertypes "github.com/cosmos/ibc-go/v8/modules/apps/transfer/types"
	clienttypes "github.com/cosmos/ibc-go/v8/modules/core/02-client/types"
	channeltypes "github.com/cosmos/ibc-go/v8/modules/core/04-channel/types"
	ibcexported "github.com/cosmos/ibc-go/v8/modules/core/exported"
	"github.com/ethereum/go-ethereum/common"
	"pgregory.net/rapid"

	"github.com/functionx/fx-core/v8/contract"
	fxtypes "github.com/functionx/fx-core/v8/types"
	crosschaintypes "github.com/functionx/fx-core/v8/x/crosschain/types"
	erc20types "github.com/functionx/fx-core/v8/x/erc20/types"
	ibcmwtypes "github.com/functionx/fx-core/v8/x/ibc/middleware/types"

	"verif/harness/ev"
	"verif/harness/sim"
)

// ---------------------------------------------------------------------------------------------
// C19 — IBC transfers through the middleware credit or refund exactly once.
// Histories on two open transfer channels (real channel / connection / client state on the sending
// side, ibc-go v8.5.1's delivery rules emulated on the receiving side, see sim/ibc.go): inbound
// packets with generated denomination (foreign voucher registered as a pair by its ibc denom, foreign
// voucher registered as an alias, unregistered voucher, returning FX within and beyond the escrow,
// garbage), receiver (hex user, bech32 user, contract, garbage), amount (normal, 0, 2^256, text) and memo
// (none, EVM call to a contract that records its caller, EVM call that reverts, malformed, other json);
// outbound transfers started from Cosmos (MsgTransfer) and from the EVM (crossChain precompile with an
// IBC target: native value, wrapped FX, voucher ERC-20), then success / error acknowledgements and
// timeouts in any order, with replays of everything.
// ---------------------------------------------------------------------------------------------

type c19Op struct {
	Kind     string `json:"kind"` // recv | replay | sendcosmos | sendevm | deliver
	Ch       int    `json:"ch"`
	Denom    int    `json:"denom"`
	Receiver int    `json:"receiver"`
	Amount   int    `json:"amount_kind"`
	Amt      int64  `json:"amt"`
	Memo     int    `json:"memo"`
	Sender   int    `json:"sender"`
	U        int    `json:"u"`
	Idx      int    `json:"idx"`
	How      int    `json:"how"` // deliver: 0 success ack, 1 error ack, 2 timeout
}

type c19Case struct {
	Ops []c19Op `json:"ops"`
}

func genC19(t *rapid.T) c19Case {
	max := 25
	if thorough() {
		max = 70
	}
	n := rapid.IntRange(3, max).Draw(t, "n")
	kinds := []string{"recv", "recv", "recv", "recv", "replay", "sendcosmos", "sendcosmos", "sendevm", "sendevm", "deliver", "deliver", "deliver", "deliver"}
	var c c19Case
	for i := 0; i < n; i++ {
		if rapid.IntRange(0, 9).Draw(t, "roundtrip") == 0 {
			// a native coin goes out, is acknowledged, and (part of it) comes back
			ch, d := rapid.IntRange(0, 1).Draw(t, "rch"), rapid.SampledFrom([]int{0, 2}).Draw(t, "rdenom")
			back := map[int]int{0: 4, 2: 7}[d]
			c.Ops = append(c.Ops, c19Op{Kind: "sendcosmos", Ch: ch, Denom: d, U: rapid.IntRange(0, 2).Draw(t, "ru"), Amt: rapid.Int64Range(100, 100_000).Draw(t, "ramt")},
				c19Op{Kind: "deliver", Idx: 99, How: 0, Ch: ch},
				c19Op{Kind: "recv", Ch: ch, Denom: back, Receiver: rapid.SampledFrom([]int{0, 0, 1, 2, 4}).Draw(t, "rrecv"), Amt: rapid.Int64Range(1, 100_000).Draw(t, "rback"), Memo: rapid.SampledFrom([]int{0, 0, 1}).Draw(t, "rmemo"), Sender: rapid.IntRange(0, 4).Draw(t, "rsender")})
			continue
		}
		c.Ops = append(c.Ops, c19Op{Kind: rapid.SampledFrom(kinds).Draw(t, "kind"), Ch: rapid.IntRange(0, 1).Draw(t, "ch"), Denom: rapid.IntRange(0, 8).Draw(t, "denom"),
			Receiver: rapid.SampledFrom([]int{0, 0, 0, 1, 2, 2, 3, 4, 4, 4}).Draw(t, "receiver"), Amount: rapid.SampledFrom([]int{0, 0, 0, 0, 1, 2, 3}).Draw(t, "amountKind"), Amt: rapid.Int64Range(1, 100_000).Draw(t, "amt"),
			Memo: rapid.SampledFrom([]int{0, 0, 0, 1, 1, 2, 3, 4}).Draw(t, "memo"), Sender: rapid.IntRange(0, 4).Draw(t, "sender"), U: rapid.IntRange(0, 2).Draw(t, "u"), Idx: rapid.IntRange(0, 9).Draw(t, "idx"), How: rapid.IntRange(0, 2).Draw(t, "how")})
	}
	return c
}

type c19Out struct {
	Packet   channeltypes.Packet
	Ch       int
	From     int
	FromEVM  bool
	Form     string // coin | erc20 | native
	Token    string
	Amount   sdkmath.Int
	State    string // inflight | acked | failed | timedout
	PreCoin  sdkmath.Int
	PreERC20 *big.Int
}

// caller-recording callee: CALLER PUSH1 0 SSTORE STOP
var c19Recorder = []byte{0x33, 0x60, 0x00, 0x55, 0x00}

func runC19(c c19Case, rec *ev.Recorder) *Failure {
	f := base()
	ctx, _ := f.Ctx.CacheContext()
	gov := sim.GovAddr.String()
	labels := map[string]bool{}
	var chans []sim.IBCChannel
	for i := 0; i < 2; i++ {
		ch, err := f.OpenTransferChannel(ctx, i)
		if err != nil {
			return failf("harness", "open channel: %v", err)
		}
		chans = append(chans, ch)
	}
	// pairs: uatom via channel-0 registered by its ibc denom; uosmo via channel-1 registered as an alias of "osmo"
	atomTrace := transfertypes.DenomTrace{Path: chans[0].Port + "/" + chans[0].Channel, BaseDenom: "uatom"}
	osmoTrace := transfertypes.DenomTrace{Path: chans[1].Port + "/" + chans[1].Channel, BaseDenom: "uosmo"}
	atomMd := banktypes.Metadata{Description: "atom", Base: atomTrace.IBCDenom(), Display: "ATOM", Name: "Atom", Symbol: "ATOM", DenomUnits: []*banktypes.DenomUnit{{Denom: atomTrace.IBCDenom(), Exponent: 0}, {Denom: "ATOM", Exponent: 6}}}
	if r := f.RunMsg(ctx, &erc20types.MsgRegisterCoin{Authority: gov, Metadata: atomMd}); !r.OK() {
		return failf("harness", "register atom: %v", r.Err)
	}
	if r := f.RunMsg(ctx, &erc20types.MsgRegisterCoin{Authority: gov, Metadata: fxtypes.GetCrossChainMetadataManyToOne("Osmosis", "OSMO", 6, osmoTrace.IBCDenom())}); !r.OK() {
		return failf("harness", "register osmo: %v", r.Err)
	}
	atomPair, _ := f.App.Erc20Keeper.GetTokenPair(ctx, atomTrace.IBCDenom())
	osmoPair, _ := f.App.Erc20Keeper.GetTokenPair(ctx, "osmo")
	wfx := f.Token("FX").ERC20
	recorder, reverter := sim.HexAddrN("c19-recorder", 1), sim.HexAddrN("c19-reverter", 1)
	if err := f.App.EvmKeeper.CreateContractWithCode(ctx, recorder, c19Recorder); err != nil {
		return failf("harness", "install recorder: %v", err)
	}
	if err := f.App.EvmKeeper.CreateContractWithCode(ctx, reverter, c18Callees["sstore-revert"]); err != nil {
		return failf("harness", "install reverter: %v", err)
	}
	for _, u := range f.Users[:3] {
		for _, tok := range []common.Address{wfx, atomPair.GetERC20Contract()} {
			d, _ := contract.GetFIP20().ABI.Pack("approve", sim.CrosschainAddr, new(big.Int).Lsh(big.NewInt(1), 200))
			f.EthTx(ctx, u, &tok, nil, d, 500_000)
		}
	}
	// tracked holdings: per account and token, coin form (all denominations of the group) and ERC-20 form
	type tok struct {
		name   string
		denoms []string
		erc20  common.Address
	}
	usdtTok := f.Token("USDT")
	usdtDenoms := []string{usdtTok.Base}
	for _, chn := range baseChains {
		usdtDenoms = append(usdtDenoms, usdtTok.Bridge[chn])
	}
	nativeDenom := map[string]string{"FX": fxtypes.DefaultDenom, "USDT": usdtTok.Base}
	toks := []tok{{"USDT", usdtDenoms, usdtTok.ERC20}, {"FX", []string{fxtypes.DefaultDenom}, wfx}, {"ATOM", []string{atomTrace.IBCDenom()}, atomPair.GetERC20Contract()}, {"OSMO", []string{"osmo", osmoTrace.IBCDenom()}, osmoPair.GetERC20Contract()}}
	accounts := map[string]common.Address{"user 0": f.Users[0].Hex(), "user 1": f.Users[1].Hex(), "user 2": f.Users[2].Hex(), "recorder": recorder, "reverter": reverter}
	// the sender field of a packet is whatever the counterparty chain writes: foreign bech32 accounts, the bech32 form of a local
	// account, and hex forms of local accounts (an EVM-based counterparty)
	extSenders := []string{"cosmos1qypqxpq9qcrsszg2pvxq6rs0zqg3yyc5lzv7xu", "cosmos1zg69v7yszg69v7yszg69v7yszg69v7ys8xdv96", f.Users[1].Acc().String(),
		f.Users[0].Hex().String(), strings.ToLower(f.Users[2].Hex().String())}
	{
		// no (channel, sender) pair derives a local account or what the sender string itself decodes to, and distinct pairs derive distinct accounts
		seen := map[common.Address]string{}
		for _, sdr := range extSenders {
			for _, chn := range chans {
				d := ibcmwtypes.IntermediateSender(chn.CPPort, chn.CPChannel, sdr)
				pair := chn.CPChannel + "/" + sdr
				for who, a := range accounts {
					if a == d {
						return failf("C19/memo-call-impersonates", "a memo call of sender %s over %s would run as the local account %s (%s)", sdr, chn.CPChannel, who, a)
					}
				}
				if common.IsHexAddress(sdr) && common.HexToAddress(sdr) == d {
					return failf("C19/memo-call-impersonates", "a memo call of sender %s over %s would run as the address the sender string spells", sdr, chn.CPChannel)
				}
				if acc, err := sdk.AccAddressFromBech32(sdr); err == nil && common.BytesToAddress(acc) == d {
					return failf("C19/memo-call-impersonates", "a memo call of sender %s over %s would run as the address the sender string decodes to", sdr, chn.CPChannel)
				}
				if other, dup := seen[d]; dup {
					return failf("C19/memo-call-sender-collision", "senders %s and %s derive the same memo-call account %s", other, pair, d)
				}
				seen[d] = pair
			}
		}
	}
	for i, s := range extSenders { // the addresses memo calls are made from are tracked too: nobody funds them
		for ci, ch := range chans {
			accounts[fmt.Sprintf("intermediate sender %d/%d", i, ci)] = ibcmwtypes.IntermediateSender(ch.CPPort, ch.CPChannel, s)
		}
	}
	coinOf := func(a common.Address, t tok) sdkmath.Int {
		sum := sdkmath.ZeroInt()
		for _, d := range t.denoms {
			sum = sum.Add(f.App.BankKeeper.GetBalance(ctx, a.Bytes(), d).Amount)
		}
		return sum
	}
	type snap map[string][2]*big.Int
	snapshot := func() snap {
		s := snap{}
		for who, a := range accounts {
			for _, t := range toks {
				s[who+"/"+t.name] = [2]*big.Int{coinOf(a, t).BigInt(), f.BalanceOf(ctx, t.erc20, a)}
			}
		}
		return s
	}
	supplyOf := func(t tok) *big.Int {
		sum := new(big.Int)
		for _, d := range t.denoms {
			sum.Add(sum, f.App.BankKeeper.GetSupply(ctx, d).Amount.BigInt())
		}
		return sum
	}
	// expect: after an operation every tracked holding equals before + the stated deltas
	compare := func(desc, sig string, before snap, want map[string][2]*big.Int) *Failure {
		after := snapshot()
		keys := make([]string, 0, len(after))
		for k := range after {
			keys = append(keys, k)
		}
		sort.Strings(keys)
		for _, k := range keys {
			for form := 0; form < 2; form++ {
				w := new(big.Int).Set(before[k][form])
				if d, ok := want[k]; ok && d[form] != nil {
					w.Add(w, d[form])
				}
				if after[k][form].Cmp(w) != 0 {
					return failf(sig, "%s: %s holds %s in %s form, expected %s (before %s)", desc, k, after[k][form], []string{"coin", "ERC-20"}[form], w, before[k][form])
				}
			}
		}
		return nil
	}
	receivers := func(i int) (string, common.Address, string) {
		switch i {
		case 0:
			return f.Users[0].Hex().String(), f.Users[0].Hex(), "user 0"
		case 1:
			return f.Users[1].Acc().String(), f.Users[1].Hex(), "user 1"
		case 2:
			return recorder.String(), recorder, "recorder"
		default:
			return "not-an-address", common.Address{}, ""
		}
	}
	timeout := uint64(ctx.BlockTime().UnixNano()) + 3600e9
	recvSeq := map[int]uint64{}
	var inbound []channeltypes.Packet
	var outs []*c19Out
	// native coins (FX, usdt) this history escrowed per channel, what acknowledged transfers delivered to the
	// counterparty, and what came back
	escrowed, ackedFX, returnedFX := map[string]sdkmath.Int{}, map[string]sdkmath.Int{}, map[string]sdkmath.Int{}
	for i := 0; i < 2; i++ {
		for name := range nativeDenom {
			k := fmt.Sprintf("%d/%s", i, name)
			escrowed[k], ackedFX[k], returnedFX[k] = sdkmath.ZeroInt(), sdkmath.ZeroInt(), sdkmath.ZeroInt()
		}
	}
	ek := func(ci int, name string) string { return fmt.Sprintf("%d/%s", ci, name) }
	relationKeys := func() int {
		n := 0
		it := ctx.KVStore(f.App.GetKey(erc20types.StoreKey)).Iterator(erc20types.KeyPrefixIBCTransfer, append(append([]byte{}, erc20types.KeyPrefixIBCTransfer...), 0xff))
		for ; it.Valid(); it.Next() {
			n++
		}
		it.Close()
		return n
	}

	for si, op := range c.Ops {
		desc := fmt.Sprintf("step %d %+v", si, op)
		ci := op.Ch % 2
		ch := chans[ci]
		switch op.Kind {
		case "recv":
			// denomination
			var denom, tokName string
			retFX, beyond := false, false
			switch op.Denom % 9 {
			case 7, 8:
				denom, tokName, retFX = ch.CPPort+"/"+ch.CPChannel+"/"+usdtTok.Base, "USDT", true
			case 0, 1:
				denom, tokName = "uatom", "ATOM"
				if ci != 0 {
					tokName = "" // the same base denomination through the other channel is a different, unregistered voucher
				}
			case 2:
				denom, tokName = "uosmo", "OSMO"
				if ci != 1 {
					tokName = ""
				}
			case 3:
				denom = "ujunk"
			case 4, 5:
				denom, tokName, retFX = ch.CPPort+"/"+ch.CPChannel+"/"+fxtypes.DefaultDenom, "FX", true
			default:
				denom = "transfer/channel-999/" + fxtypes.DefaultDenom // FX that claims to have come through another channel: a foreign voucher
			}
			amount := fmt.Sprint(op.Amt)
			if retFX {
				// the counterparty can only send back FX it received: transfers of this history that were
				// acknowledged as successful, minus what already came back. Anything more must be refused.
				avail := ackedFX[ek(ci, tokName)].Sub(returnedFX[ek(ci, tokName)])
				if op.Denom%9 != 5 {
					if !avail.IsPositive() {
						break
					}
					if avail.LT(sdkmath.NewInt(op.Amt)) {
						amount = avail.String()
					}
					op.Amount = 0
				} else {
					esc := f.App.BankKeeper.GetBalance(ctx, transfertypes.GetEscrowAddress(ch.Port, ch.Channel), nativeDenom[tokName]).Amount
					amount = esc.AddRaw(op.Amt).String()
					beyond = true
					op.Amount = 0
				}
			}
			switch op.Amount {
			case 1:
				amount = "0"
			case 2:
				amount = new(big.Int).Lsh(big.NewInt(1), 256).String()
			case 3:
				amount = "12x"
			}
			recvStr, recvAddr, recvName := receivers(op.Receiver)
			sender := extSenders[op.Sender%len(extSenders)]
			if op.Receiver == 4 {
				// the address memo calls of this sender over this channel are made from (it has to exist to make a call)
				recvAddr = ibcmwtypes.IntermediateSender(ch.CPPort, ch.CPChannel, sender)
				recvStr, recvName = recvAddr.String(), fmt.Sprintf("intermediate sender %d/%d", op.Sender%len(extSenders), ci)
			}
			memo := ""
			switch op.Memo {
			case 1, 2:
				to := recorder
				if op.Memo == 2 {
					to = reverter
				}
				bz, err := f.App.AppCodec().MarshalInterfaceJSON(&ibcmwtypes.IbcCallEvmPacket{To: to.String(), Data: "", Value: sdkmath.ZeroInt()})
				if err != nil {
					return failf("harness", "memo: %v", err)
				}
				memo = string(bz)
			case 3:
				memo = `{"@type":"/fx.ibc.applications.transfer.v1.IbcCallEvmPacket","to":"0x12"`
			case 4:
				memo = `{"forward":{"receiver":"x"}}`
			}
			recvSeq[ci]++
			data := transfertypes.NewFungibleTokenPacketData(denom, amount, sender, recvStr, memo)
			p := channeltypes.NewPacket(data.GetBytes(), recvSeq[ci], ch.CPPort, ch.CPChannel, ch.Port, ch.Channel, clienttypes.ZeroHeight(), timeout)
			inbound = append(inbound, p)
			before := snapshot()
			var tk *tok
			for i := range toks {
				if toks[i].name == tokName {
					tk = &toks[i]
				}
			}
			supplyBefore := map[string]*big.Int{}
			for _, t := range toks {
				supplyBefore[t.name] = supplyOf(t)
			}
			dumpBefore := f.DumpStores(ctx)
			slotBefore := f.App.EvmKeeper.GetState(ctx, recorder, common.Hash{})
			res := f.IBCRecv(ctx, p)
			if res.Panic != "" {
				return failf("C19/recv-panics/"+panicSite(res.Panic), "%s: receiving %s panics: %s", desc, clip(string(data.GetBytes()), 300), trimStack(res.Panic))
			}
			if res.Ack == nil {
				return failf("C19/no-acknowledgement", "%s: no acknowledgement", desc)
			}
			if !res.Ack.Success() {
				// error acknowledgement: nothing but the core's receipt and acknowledgement may have changed
				for _, d := range sim.Diff(dumpBefore, f.DumpStores(ctx)) {
					if d.Store != ibcexported.StoreKey {
						return failf("C19/error-ack-left-effects", "%s: the packet was answered with an error acknowledgement (%s) but %s changed", desc, clip(string(res.Ack.Acknowledgement()), 200), d.String())
					}
				}
				labels["recv-error-ack"] = true
				if os.Getenv("VERIF_DEBUG_TRACE") != "" {
					fmt.Println("TRACE error ack:", string(res.Ack.Acknowledgement()), "consensus max gas", ctx.ConsensusParams().Block)
				}
				if memo != "" {
					labels["recv-memo-error-ack"] = true
				}
				break
			}
			// success: exactly the sent amount, to the receiver, in the form the statement names
			amt, okAmt := new(big.Int).SetString(amount, 10)
			if recvName == "" || !okAmt || tk == nil {
				return failf("C19/credited-unknown", "%s: success acknowledgement for receiver %q amount %q denomination %q (registered token: %v)", desc, recvStr, amount, denom, tk != nil)
			}
			want := map[string][2]*big.Int{}
			if retFX && tokName == "FX" {
				want[recvName+"/FX"] = [2]*big.Int{amt, nil} // the native coin stays a coin
			} else {
				want[recvName+"/"+tk.name] = [2]*big.Int{nil, amt}
			}
			if fl := compare(desc, "C19/inbound-credit/"+tk.name, before, want); fl != nil {
				return fl
			}
			_ = recvAddr
			for _, t := range toks {
				w := new(big.Int).Set(supplyBefore[t.name])
				if t.name == tk.name && !retFX {
					w.Add(w, amt)
				}
				if got := supplyOf(t); got.Cmp(w) != 0 {
					return failf("C19/inbound-supply/"+t.name, "%s: %s of %s arrived; the supply of its coin denominations went from %s to %s (expected %s): the amount exists more than once on this chain", desc, amt, tk.name, supplyBefore[t.name], got, w)
				}
			}
			if retFX {
				if beyond {
					return failf("C19/unescrowed-more-than-escrowed", "%s: %s returning %s were released although the escrow of %s held less", desc, amount, tokName, ch.Channel)
				}
				escrowed[ek(ci, tokName)] = escrowed[ek(ci, tokName)].Sub(sdkmath.NewIntFromBigInt(amt))
				returnedFX[ek(ci, tokName)] = returnedFX[ek(ci, tokName)].Add(sdkmath.NewIntFromBigInt(amt))
				labels["recv-returning:"+tokName] = true
			}
			labels["recv-credited"] = true
			labels["recv-credited:"+tk.name] = true
			if op.Memo == 1 || op.Memo == 2 {
				// the memo call ran: its sender is derived from the packet's source channel and the original sender
				if op.Memo == 2 {
					return failf("C19/failed-memo-call-acknowledged", "%s: the memo call to a reverting contract was acknowledged as a success", desc)
				}
				got := common.BytesToAddress(f.App.EvmKeeper.GetState(ctx, recorder, common.Hash{}).Bytes())
				wantSender := ibcmwtypes.IntermediateSender(p.SourcePort, p.SourceChannel, sender)
				if got != wantSender {
					return failf("C19/memo-call-sender", "%s: the memo call ran as %s; channel %s/%s and sender %s derive %s (slot before: %s)", desc, got, p.SourcePort, p.SourceChannel, sender, wantSender, slotBefore)
				}
				for who, a := range accounts {
					if a == got && !strings.HasPrefix(who, "intermediate sender") {
						return failf("C19/memo-call-impersonates", "%s: the memo call ran as the local account %s", desc, who)
					}
				}
				if common.IsHexAddress(sender) && common.HexToAddress(sender) == got {
					return failf("C19/memo-call-impersonates", "%s: the memo call ran as the address the foreign sender string spells", desc)
				}
				if acc, err := sdk.AccAddressFromBech32(sender); err == nil && common.BytesToAddress(acc) == got {
					return failf("C19/memo-call-impersonates", "%s: the memo call ran as the address the foreign sender string decodes to", desc)
				}
				labels["recv-memo-call"] = true
			}
		case "replay":
			if len(inbound) == 0 {
				break
			}
			before := f.DumpStores(ctx)
			if res := f.IBCRecv(ctx, inbound[op.Idx%len(inbound)]); !res.NoOp {
				return failf("harness", "%s: replayed packet was delivered again", desc)
			}
			if d := sim.Diff(before, f.DumpStores(ctx)); len(d) != 0 {
				return failf("C19/replay-changed-state", "%s: %s", desc, sim.DiffString(d, 3))
			}
			labels["recv-replay"] = true
		case "sendcosmos", "sendevm":
			u := op.U % 3
			acc := f.Users[u]
			to := extSenders[op.Sender%2]
			amt := sdkmath.NewInt(op.Amt)
			before := snapshot()
			relBefore := relationKeys()
			seq, _ := f.App.IBCKeeper.ChannelKeeper.GetNextSequenceSend(ctx, ch.Port, ch.Channel)
			var o *c19Out
			var data transfertypes.FungibleTokenPacketData
			sentTimeout := timeout
			if op.Kind == "sendcosmos" {
				denom, name := fxtypes.DefaultDenom, "FX"
				if op.Denom%3 == 2 {
					denom, name = usdtTok.Base, "USDT"
				}
				if op.Denom%3 == 1 {
					denom, name = atomTrace.IBCDenom(), "ATOM" // only if the user holds voucher coins (after converting ERC-20 back)
					f.RunMsg(ctx, &erc20types.MsgConvertERC20{ContractAddress: atomPair.Erc20Address, Amount: amt, Receiver: acc.Acc().String(), Sender: acc.Hex().String()})
					before = snapshot()
				}
				r := f.RunMsg(ctx, transfertypes.NewMsgTransfer(ch.Port, ch.Channel, sdk.NewCoin(denom, amt), acc.Acc().String(), to, clienttypes.ZeroHeight(), timeout, ""))
				if !r.OK() {
					if fl := compare(desc, "C19/refused-send-changed-holdings", before, nil); fl != nil {
						return fl
					}
					break
				}
				full := denom
				if name == "ATOM" {
					full = atomTrace.GetFullDenomPath()
				}
				data = transfertypes.NewFungibleTokenPacketData(full, amt.String(), acc.Acc().String(), to, "")
				o = &c19Out{Ch: ci, From: u, Form: "coin", Token: name, Amount: amt}
				if fl := compare(desc, "C19/send-debit", before, map[string][2]*big.Int{fmt.Sprintf("user %d/%s", u, name): {new(big.Int).Neg(amt.BigInt()), nil}}); fl != nil {
					return fl
				}
			} else {
				var token common.Address
				var value *big.Int
				name, form := "FX", "native"
				switch op.Denom % 3 {
				case 0:
					value = amt.BigInt()
				case 1:
					token, form = wfx, "erc20"
				case 2:
					token, name, form = atomPair.GetERC20Contract(), "ATOM", "erc20"
				}
				d, err := crosschaintypes.GetABI().Pack("crossChain", token, to, amt.BigInt(), big.NewInt(0), fxtypes.MustStrToByte32(fmt.Sprintf("ibc/%d/cosmos", ci)), "")
				if err != nil {
					return failf("harness", "pack: %v", err)
				}
				sentTimeout = uint64(ctx.BlockTime().UnixNano()) + uint64(f.App.Erc20Keeper.GetIbcTimeout(ctx))
				r := f.EthTx(ctx, acc, &sim.CrosschainAddr, value, d, 3_000_000)
				if !r.Success() {
					labels["evm-send-refused:"+form+"-"+name] = true
					if fl := compare(desc, "C19/refused-send-changed-holdings", before, nil); fl != nil {
						return fl
					}
					if relationKeys() != relBefore {
						return failf("C19/relation-left-by-refused-send", "%s: the refused transfer left a tracking record", desc)
					}
					break
				}
				full := fxtypes.DefaultDenom
				if name == "ATOM" {
					full = atomTrace.GetFullDenomPath()
				}
				data = transfertypes.NewFungibleTokenPacketData(full, amt.String(), acc.Acc().String(), to, "")
				o = &c19Out{Ch: ci, From: u, FromEVM: true, Form: form, Token: name, Amount: amt}
				delta := [2]*big.Int{nil, new(big.Int).Neg(amt.BigInt())}
				if form == "native" {
					delta = [2]*big.Int{new(big.Int).Neg(amt.BigInt()), nil}
				}
				if fl := compare(desc, "C19/send-debit", before, map[string][2]*big.Int{fmt.Sprintf("user %d/%s", u, name): delta}); fl != nil {
					return fl
				}
				labels["evm-send:"+form+"-"+name] = true
			}
			p, err := f.SentPacket(ctx, ch, seq, data, sentTimeout)
			if err != nil {
				return failf("harness", "%s: %v", desc, err)
			}
			o.Packet, o.State = p, "inflight"
			outs = append(outs, o)
			if _, native := nativeDenom[o.Token]; native {
				escrowed[ek(ci, o.Token)] = escrowed[ek(ci, o.Token)].Add(amt)
			}
			hasRel := ctx.KVStore(f.App.GetKey(erc20types.StoreKey)).Has(erc20types.GetIBCTransferKey(ch.Channel, seq))
			if hasRel != (o.Form == "erc20") {
				labels[fmt.Sprintf("relation-record:%v-for-%s", hasRel, o.Form)] = true
			}
			labels["send"] = true
		case "deliver":
			if len(outs) == 0 {
				break
			}
			o := outs[op.Idx%len(outs)]
			if op.Idx == 99 {
				o = outs[len(outs)-1]
			}
			who := fmt.Sprintf("user %d/%s", o.From, o.Token)
			before := snapshot()
			var dl sim.IBCDelivery
			switch op.How % 3 {
			case 0:
				dl = f.IBCAck(ctx, o.Packet, channeltypes.NewResultAcknowledgement([]byte{1}))
			case 1:
				dl = f.IBCAck(ctx, o.Packet, channeltypes.NewErrorAcknowledgement(fmt.Errorf("rejected by the counterparty")))
			default:
				dl = f.IBCTimeout(ctx, o.Packet)
			}
			if dl.Panic != "" {
				return failf("C19/delivery-panics/"+panicSite(dl.Panic), "%s: %s", desc, trimStack(dl.Panic))
			}
			if o.State != "inflight" {
				// a replay: the core answers it as a no-op, nothing may change
				if !dl.NoOp {
					return failf("harness", "%s: packet in state %s was delivered again", desc, o.State)
				}
				if fl := compare(desc, "C19/replayed-delivery-changed-holdings", before, nil); fl != nil {
					return fl
				}
				labels["delivery-replay"] = true
				break
			}
			if dl.NoOp {
				return failf("harness", "%s: in-flight packet has no commitment", desc)
			}
			if dl.Err != nil {
				// the callback refused: the message fails as a whole and can be relayed again; nothing may have changed
				if fl := compare(desc, "C19/failed-delivery-changed-holdings", before, nil); fl != nil {
					return fl
				}
				return failf("C19/refund-refused", "%s: the %s transfer of %s %s started by user %d (%s form) cannot be resolved (%s): %v", desc, ch.Channel, o.Amount, o.Token, o.From, o.Form, []string{"success acknowledgement", "error acknowledgement", "timeout"}[op.How%3], dl.Err)
			}
			want := map[string][2]*big.Int{}
			if op.How%3 == 0 {
				o.State = "acked"
				if _, native := nativeDenom[o.Token]; native {
					ackedFX[ek(o.Ch, o.Token)] = ackedFX[ek(o.Ch, o.Token)].Add(o.Amount)
				}
			} else {
				// refunded exactly once, in the form it was sent in
				if o.Form == "erc20" {
					want[who] = [2]*big.Int{nil, o.Amount.BigInt()}
				} else {
					want[who] = [2]*big.Int{o.Amount.BigInt(), nil}
				}
				o.State = map[int]string{1: "failed", 2: "timedout"}[op.How%3]
				if _, native := nativeDenom[o.Token]; native {
					escrowed[ek(o.Ch, o.Token)] = escrowed[ek(o.Ch, o.Token)].Sub(o.Amount)
				}
				labels["refund:"+o.Form] = true
			}
			if fl := compare(desc, "C19/refund-amount/"+o.Form, before, want); fl != nil {
				return fl
			}
			if ctx.KVStore(f.App.GetKey(erc20types.StoreKey)).Has(erc20types.GetIBCTransferKey(chans[o.Ch].Channel, o.Packet.Sequence)) {
				return failf("C19/relation-record-left/"+o.State, "%s: the tracking record of %s/%d is still there after the transfer was resolved (%s)", desc, chans[o.Ch].Channel, o.Packet.Sequence, o.State)
			}
			labels["resolved:"+o.State] = true
			for _, other := range outs {
				if other != o && other.State == "inflight" && other.Packet.Sequence < o.Packet.Sequence && other.Ch == o.Ch {
					labels["resolved-out-of-order"] = true
				}
			}
		}
		// the escrow accounts hold exactly what this history escrowed
		for i, chn := range chans {
			for name, d := range nativeDenom {
				esc := f.App.BankKeeper.GetBalance(ctx, transfertypes.GetEscrowAddress(chn.Port, chn.Channel), d).Amount
				if !esc.Equal(escrowed[ek(i, name)]) {
					return failf("C19/escrow-balance", "%s: the escrow of %s holds %s %s; sends minus refunds minus returns of this history are %s", desc, chn.Channel, esc, name, escrowed[ek(i, name)])
				}
			}
		}
	}
	_ = authtypes.ModuleName
	var ls []string
	for l := range labels {
		ls = append(ls, l)
	}
	sortStrings(ls)
	nontrivial := labels["resolved-out-of-order"] || labels["recv-memo-call"] || labels["recv-memo-error-ack"]
	ks := ""
	for _, op := range c.Ops {
		ks += op.Kind[:2]
	}
	rec.Case(ev.Sig(ks, strings.Join(ls, ",")), nontrivial, ls...)
	if nontrivial && rec.WantSample() {
		rec.Sample(c)
	}
	return nil
}

func init() { registerReplay("C19", runC19) }

func TestC19(t *testing.T) { drive(t, "C19", genC19, runC19) }
