// Package ev collects per-property evidence counters inside a test process and writes them to
// $VERIF_EV_DIR/<prop>.<shard>.json for the driver to merge.
package ev

import (
	"crypto/sha256"
	"encoding/hex"
	"encoding/json"
	"fmt"
	"os"
	"path/filepath"
	"sort"
	"strings"
	"sync"
)

const maxSamples = 6

type Recorder struct {
	mu         sync.Mutex
	Prop       string                 `json:"prop"`
	Evals      int                    `json:"evaluations"`
	NonTrivial int                    `json:"nontrivial"`
	Sigs       map[string]struct{}    `json:"-"`
	SigList    []string               `json:"sigs"`
	Labels     map[string]int         `json:"labels"`
	Samples    []interface{}          `json:"samples"`
	Excluded   map[string]int         `json:"excluded"`
	Known      map[string]string      `json:"known"` // known-finding id -> witness
	Extra      map[string]interface{} `json:"extra"`
	Violations []Violation            `json:"violations"`
}

type Violation struct {
	Sig    string `json:"sig"`
	Msg    string `json:"msg"`
	Replay string `json:"replay"`
}

var (
	regMu sync.Mutex
	reg   = map[string]*Recorder{}
)

func Get(prop string) *Recorder {
	regMu.Lock()
	defer regMu.Unlock()
	r, ok := reg[prop]
	if !ok {
		r = &Recorder{Prop: prop, Sigs: map[string]struct{}{}, Labels: map[string]int{}, Excluded: map[string]int{}, Known: map[string]string{}, Extra: map[string]interface{}{}}
		reg[prop] = r
	}
	return r
}

// Sig hashes a classified-case description into a short signature.
func Sig(parts ...interface{}) string {
	h := sha256.Sum256([]byte(fmt.Sprint(parts...)))
	return hex.EncodeToString(h[:8])
}

// Case records one executed case. sig identifies the *classified* case; nontrivial per the
// property's stated rule.
func (r *Recorder) Case(sig string, nontrivial bool, labels ...string) {
	r.mu.Lock()
	defer r.mu.Unlock()
	r.Evals++
	if nontrivial {
		r.NonTrivial++
		r.Sigs[sig] = struct{}{}
	}
	for _, l := range labels {
		r.Labels[l]++
	}
}

func (r *Recorder) Label(l string, n int) {
	r.mu.Lock()
	defer r.mu.Unlock()
	r.Labels[l] += n
}

// Sample keeps the first few non-trivial cases written out in full.
func (r *Recorder) Sample(v interface{}) {
	r.mu.Lock()
	defer r.mu.Unlock()
	if len(r.Samples) < maxSamples {
		r.Samples = append(r.Samples, v)
	}
}

func (r *Recorder) WantSample() bool {
	r.mu.Lock()
	defer r.mu.Unlock()
	return len(r.Samples) < maxSamples
}

func (r *Recorder) Exclude(class string) {
	r.mu.Lock()
	defer r.mu.Unlock()
	r.Excluded[class]++
}

// KnownFinding records that the listed finding `id` was met again (with a witness).
func (r *Recorder) KnownFinding(id, witness string) {
	r.mu.Lock()
	defer r.mu.Unlock()
	if _, ok := r.Known[id]; !ok {
		if len(witness) > 600 {
			witness = witness[:600] + "…"
		}
		r.Known[id] = witness
	}
}

func (r *Recorder) SetExtra(k string, v interface{}) {
	r.mu.Lock()
	defer r.mu.Unlock()
	r.Extra[k] = v
}

func (r *Recorder) AddViolation(sig, msg, replay string) {
	r.mu.Lock()
	defer r.mu.Unlock()
	if len(msg) > 4000 {
		msg = msg[:4000] + "…"
	}
	r.Violations = append(r.Violations, Violation{Sig: sig, Msg: msg, Replay: replay})
}

// Flush writes all recorders; called from TestMain.
func Flush() {
	dir := os.Getenv("VERIF_EV_DIR")
	if dir == "" {
		return
	}
	shard := os.Getenv("VERIF_SHARD")
	if shard == "" {
		shard = "0"
	}
	_ = os.MkdirAll(dir, 0o755)
	regMu.Lock()
	defer regMu.Unlock()
	for p, r := range reg {
		r.mu.Lock()
		r.SigList = r.SigList[:0]
		for s := range r.Sigs {
			r.SigList = append(r.SigList, s)
		}
		sort.Strings(r.SigList)
		b, err := json.Marshal(r)
		r.mu.Unlock()
		if err != nil {
			fmt.Fprintln(os.Stderr, "ev: marshal:", err)
			continue
		}
		name := filepath.Join(dir, fmt.Sprintf("%s.%s.json", p, strings.ReplaceAll(shard, "/", "_")))
		// several tests of one property in separate processes use distinct shard names
		if err := os.WriteFile(name, b, 0o644); err != nil {
			fmt.Fprintln(os.Stderr, "ev: write:", err)
		}
	}
}
