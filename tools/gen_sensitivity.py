#!/usr/bin/env python3
"""Rewrites the generated tables of DESIGN.md (between the SENSITIVITY and SOAK markers) from
sensitivity_mutants.txt, seeded/*/meta.json and soak_results.txt."""
import glob, json, os, re
V = "/verif"
s = open(f"{V}/DESIGN.md").read()

def between(s, tag, body):
    a, b = f"<!-- {tag}:BEGIN -->", f"<!-- {tag}:END -->"
    i, j = s.index(a) + len(a), s.index(b)
    return s[:i] + "\n" + body.rstrip() + "\n" + s[j:]

rows = []
if os.path.exists(f"{V}/sensitivity_mutants.txt"):
    for line in open(f"{V}/sensitivity_mutants.txt"):
        m = re.match(r"(\S+)\.diff: exit=(\d+) violations=(\d+)", line)
        if m:
            name, rc, nv = m.group(1), int(m.group(2)), int(m.group(3))
            rows.append((name.split("-")[0], "mutant", name, "caught (%d failing shards or tests)" % nv if rc == 1 else ("NOT caught" if rc == 0 else "inconclusive")))
for p in sorted(glob.glob(f"{V}/seeded/*/meta.json")):
    m = json.load(open(p))
    cr = m["check_result"]
    sig = re.sub(r"\s+", " ", cr.get("signatures", "")).strip()
    sig = re.sub(r"^\d+ violated ", "", sig.split(";")[0])
    rows.append((m["property"], "seeded", m["name"], ("caught " + sig) if cr.get("caught") else "NOT caught"))
rows.sort()
body = "| property | kind | change | quick check |\n|---|---|---|---|\n" + "\n".join(f"| {a} | {b} | `{c}` | {d} |" for a, b, c, d in rows)
nm = sum(1 for r in rows if r[1] == "mutant"); ns = len(rows) - nm
cm = sum(1 for r in rows if r[1] == "mutant" and r[3].startswith("caught")); cs = sum(1 for r in rows if r[1] == "seeded" and r[3].startswith("caught"))
body = f"{cm} of {nm} mutants and {cs} of {ns} seeded changes are caught by the quick tier of the current checks:\n\n" + body
s = between(s, "SENSITIVITY", body)
if os.path.exists(f"{V}/soak_results.txt"):
    body = "### 9.1 Quick tier at several seeds (unchanged tree)\n\n```\n" + open(f"{V}/soak_results.txt").read().rstrip() + "\n```"
    if os.path.exists(f"{V}/thorough_results.txt"):
        body += "\n\n### 9.2 Thorough tier (unchanged tree)\n\nThe first thorough runs of C09 and C11 reported violations that were false alarms of the harness at the larger sizes (section 6); the lines below are the runs after the corrections.\n\n```\n" + open(f"{V}/thorough_results.txt").read().rstrip() + "\n```"
    s = between(s, "SOAK", body)
open(f"{V}/DESIGN.md", "w").write(s)
print(f"mutants {cm}/{nm} seeded {cs}/{ns}")
