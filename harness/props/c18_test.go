package props

import (
	"bytes"
	"encoding/hex"
	"fmt"
	"math/big"
	"sort"
	"strings"
	"testing"
	"time"

	sdkmath "cosmossdk.io/math"
	sdk "github.com/cosmos/cosmos-sdk/types"
	authtypes "github.com/cosmos/cosmos-sdk/x/auth/types"
	distrtypes "github.com/cosmos/cosmos-sdk/x/distribution/types"
	govtypes "github.com/cosmos/cosmos-sdk/x/gov/types"
	govv1 "github.com/cosmos/cosmos-sdk/x/gov/types/v1"
	"github.com/ethereum/go-ethereum/common"
	"pgregory.net/rapid"

	"github.com/functionx/fx-core/v8/contract"
	fxtypes "github.com/functionx/fx-core/v8/types"
	crosschaintypes "github.com/functionx/fx-core/v8/x/crosschain/types"
	erc20types "github.com/functionx/fx-core/v8/x/erc20/types"
	fxgov "github.com/functionx/fx-core/v8/x/gov"
	fxgovtypes "github.com/functionx/fx-core/v8/x/gov/types"

	"verif/harness/ev"
	"verif/harness/evmprog"
	"verif/harness/sim"
)

// ---------------------------------------------------------------------------------------------
// C18 — a tolerated failed sub-step leaves none of its own partial effects. One fault point per case:
//   event      an observed event whose handler fails (duplicate bridge token, FX with wrong decimals,
//              oracle-set update for an unknown nonce): only the attestation bookkeeping may change;
//   bridgecall an inbound bridge call (1-3 tokens) whose follow-up fails at a generated point: callee
//              reverts / hits INVALID / loops until the generated gas limit after writing storage, a
//              Runner script (send-call-to mode) moves tokens and calls precompiles and then fails, or
//              the conversion of the k-th token fails (pair disabled): the claim is settled by a refund
//              record carrying exactly the claim's tokens, and nobody else's holdings, no supply and no
//              callee storage changed;
//   proposal   a passed proposal of n same-type messages failing at position i with an error or a panic:
//              the resulting state equals, outside the proposal's own record, the state reached by a
//              proposal that consists of the failing message alone.
// (The IBC boundary is checked by the C19 machinery, see TestC18IBC.)
// ---------------------------------------------------------------------------------------------

type c18Step struct {
	Kind  string `json:"kind"` // transfer | crosschain | delegate
	Amt   int64  `json:"amt"`
	Catch bool   `json:"catch"`
}

type c18Case struct {
	Boundary string `json:"boundary"`
	Chain    int    `json:"chain"`
	// event
	EventKind int `json:"event_kind"`
	// bridgecall
	Toks        []int     `json:"tokens"`
	Amts        []int64   `json:"amounts"`
	Mode        string    `json:"mode"`   // callback | sendcallto
	Callee      string    `json:"callee"` // revert | invalid | sstore-revert | sstore-loop | sstore-ok | eoa (callback mode)
	Steps       []c18Step `json:"steps"`  // send-call-to mode: what the Runner does before its epilogue
	Epilogue    int       `json:"epilogue"`
	GasLimit    int       `json:"gas_limit_variant"`
	DisablePair int       `json:"disable_pair_of_token"` // -1: none; k: conversion of the k-th token of the claim is disabled
	Refund      string    `json:"refund"`                // receiver | user | fresh
	// proposal
	MsgKind string `json:"msg_kind"` // spend | oracles | toggle
	N       int    `json:"n_msgs"`
	FailAt  int    `json:"fail_at"`
}

var c18GasLimits = []uint64{0 /* keep the default */, 21_000, 60_000, 150_000, 1_000_000}

func genC18(t *rapid.T) c18Case {
	c := c18Case{Boundary: rapid.SampledFrom([]string{"event", "bridgecall", "bridgecall", "bridgecall", "bridgecall", "proposal", "proposal"}).Draw(t, "boundary"), Chain: rapid.IntRange(0, 2).Draw(t, "chain"), DisablePair: -1}
	switch c.Boundary {
	case "event":
		c.EventKind = rapid.IntRange(0, 2).Draw(t, "ekind")
	case "bridgecall":
		n := rapid.IntRange(1, 3).Draw(t, "ntok")
		perm := rapid.Permutation([]int{0, 1, 2}).Draw(t, "perm")
		for i := 0; i < n; i++ {
			c.Toks = append(c.Toks, perm[i])
			c.Amts = append(c.Amts, rapid.Int64Range(1, 5000).Draw(t, "amt"))
		}
		c.Mode = rapid.SampledFrom([]string{"callback", "callback", "sendcallto"}).Draw(t, "mode")
		c.Callee = rapid.SampledFrom([]string{"revert", "invalid", "sstore-revert", "sstore-revert", "sstore-loop", "sstore-loop", "sstore-ok", "eoa"}).Draw(t, "callee")
		for i := rapid.IntRange(0, 3).Draw(t, "nsteps"); i > 0; i-- {
			c.Steps = append(c.Steps, c18Step{Kind: rapid.SampledFrom([]string{"transfer", "transfer", "crosschain", "delegate"}).Draw(t, "skind"), Amt: rapid.Int64Range(1, 300).Draw(t, "samt"), Catch: rapid.Bool().Draw(t, "catch")})
		}
		c.Epilogue = rapid.SampledFrom([]int{evmprog.EpiRevert, evmprog.EpiRevert, evmprog.EpiInvalid, evmprog.EpiBurn, evmprog.EpiReturn}).Draw(t, "epi")
		c.GasLimit = rapid.IntRange(0, len(c18GasLimits)-1).Draw(t, "gas")
		if rapid.IntRange(0, 3).Draw(t, "disable") == 0 {
			c.DisablePair = rapid.IntRange(0, n-1).Draw(t, "dk")
		}
		c.Refund = rapid.SampledFrom([]string{"receiver", "user", "user", "fresh"}).Draw(t, "refund")
	case "proposal":
		c.MsgKind = rapid.SampledFrom([]string{"spend", "oracles", "toggle"}).Draw(t, "mkind")
		c.N = rapid.IntRange(1, 4).Draw(t, "n")
		if c.MsgKind == "oracles" && c.N > 3 {
			c.N = 3
		}
		c.FailAt = rapid.IntRange(0, c.N-1).Draw(t, "failAt")
	}
	return c
}

// tiny callees for the callback mode (the callback's ABI-encoded arguments are ignored)
var c18Callees = map[string][]byte{
	"revert":        {0x60, 0x00, 0x60, 0x00, 0xfd},                               // PUSH1 0 PUSH1 0 REVERT
	"invalid":       {0xfe},                                                       // INVALID
	"sstore-revert": {0x60, 0x01, 0x60, 0x00, 0x55, 0x60, 0x00, 0x60, 0x00, 0xfd}, // SSTORE(0,1) REVERT
	"sstore-loop":   {0x60, 0x01, 0x60, 0x00, 0x55, 0x5b, 0x60, 0x05, 0x56},       // SSTORE(0,1) loop: JUMPDEST PUSH1 5 JUMP
	"sstore-ok":     {0x60, 0x01, 0x60, 0x00, 0x55, 0x00},                         // SSTORE(0,1) STOP
}

func runC18(c c18Case, rec *ev.Recorder) *Failure {
	switch c.Boundary {
	case "event":
		return runC18Event(c, rec)
	case "bridgecall":
		return runC18BridgeCall(c, rec)
	case "proposal":
		return runC18Proposal(c, rec)
	}
	return failf("harness", "unknown boundary %q", c.Boundary)
}

// ---- observed event whose handler fails ------------------------------------------------------

func runC18Event(c c18Case, rec *ev.Recorder) *Failure {
	f := base()
	ctx, _ := f.Ctx.CacheContext()
	ch := baseChains[c.Chain%len(baseChains)]
	k := f.Keeper(ch)
	usdt := f.Token("USDT")
	var claim crosschaintypes.ExternalClaim
	kind := ""
	switch c.EventKind % 3 {
	case 0:
		kind = "duplicate-bridge-token"
		claim = &crosschaintypes.MsgBridgeTokenClaim{TokenContract: usdt.Contracts[ch], Name: "Tether", Symbol: "USDT", Decimals: 18}
	case 1:
		kind = "fx-with-wrong-decimals"
		claim = &crosschaintypes.MsgBridgeTokenClaim{TokenContract: sim.ExtAddrN(ch, "c18-fx", 1), Name: "Function X", Symbol: fxtypes.DefaultDenom, Decimals: 6}
	case 2:
		kind = "oracle-set-unknown-nonce"
		claim = &crosschaintypes.MsgOracleSetUpdatedClaim{OracleSetNonce: 9_999, Members: []crosschaintypes.BridgeValidator{{Power: 1, ExternalAddress: f.Oracles[ch][0].ExtAddr}}}
	}
	pre := f.DumpStores(ctx)
	height := k.GetLastObservedBlockHeight(ctx).ExternalBlockHeight
	nonceBefore := k.GetLastObservedEventNonce(ctx)
	if _, err := f.Observe(ctx, ch, claim, height); err != nil {
		return failf("harness", "observe %s: %v", kind, err)
	}
	if got := k.GetLastObservedEventNonce(ctx); got != nonceBefore+1 {
		return failf("C18/event-not-marked-observed/"+kind, "the failing %s event left the observed nonce at %d (was %d)", kind, got, nonceBefore)
	}
	allowed := [][]byte{crosschaintypes.OracleAttestationKey, crosschaintypes.LastObservedEventNonceKey, crosschaintypes.LastObservedBlockHeightKey, crosschaintypes.LastEventNonceByOracleKey, crosschaintypes.LastEventBlockHeightByOracleKey}
	for _, d := range sim.Diff(pre, f.DumpStores(ctx)) {
		ok := false
		if d.Store == ch {
			for _, p := range allowed {
				if bytes.HasPrefix(d.Key, p) {
					ok = true
				}
			}
		}
		if !ok {
			return failf("C18/failed-event-left-effects/"+kind, "observing the failing %s event changed %s", kind, d.String())
		}
	}
	rec.Case(ev.Sig("event", ch, kind), false, "boundary:event", "event:"+kind)
	return nil
}

// ---- inbound bridge call whose follow-up fails -----------------------------------------------

func runC18BridgeCall(c c18Case, rec *ev.Recorder) *Failure {
	f := base()
	ctx, _ := f.Ctx.CacheContext()
	ch := baseChains[c.Chain%len(baseChains)]
	k := f.Keeper(ch)
	gov := sim.GovAddr.String()
	labels := []string{"boundary:bridgecall", "mode:" + c.Mode, "refund:" + c.Refund}
	// tokens of the claim (FX lives on the first chain only)
	var toks []*sim.Token
	var amts []sdkmath.Int
	seen := map[string]bool{}
	for i, ti := range c.Toks {
		t := f.Tokens[ti%len(f.Tokens)]
		if _, ok := t.Contracts[ch]; !ok || seen[t.Name] {
			continue
		}
		seen[t.Name] = true
		toks = append(toks, t)
		amts = append(amts, sdkmath.NewInt(c.Amts[i]))
	}
	if len(toks) == 0 {
		toks, amts = []*sim.Token{f.Token("USDT")}, []sdkmath.Int{sdkmath.NewInt(c.Amts[0])}
	}
	if gl := c18GasLimits[c.GasLimit%len(c18GasLimits)]; gl != 0 {
		p := k.GetParams(ctx)
		p.BridgeCallMaxGasLimit = gl
		if r := f.RunMsg(ctx, &crosschaintypes.MsgUpdateParams{ChainName: ch, Authority: gov, Params: p}); !r.OK() {
			return failf("harness", "params: %v", r.Err)
		}
		labels = append(labels, fmt.Sprintf("gas-limit:%d", gl))
	}
	// a token that originates on fxcore can only come in if it went out before: one executed transfer
	for _, t := range toks {
		if t.Kind != sim.KindExternal {
			continue
		}
		u := f.Users[0]
		if r := f.RunMsg(ctx, &crosschaintypes.MsgSendToExternal{ChainName: ch, Sender: u.Acc().String(), Dest: sim.ExtAddrN(ch, "c18-out", 1), Amount: sdk.NewCoin(t.Base, sdkmath.NewInt(50_000)), BridgeFee: sdk.NewCoin(t.Base, sdkmath.NewInt(10))}); !r.OK() {
			return failf("harness", "send out: %v", r.Err)
		}
		if r := f.RunMsg(ctx, &crosschaintypes.MsgRequestBatch{ChainName: ch, Sender: f.Oracles[ch][0].Bridger.Acc().String(), Denom: t.Bridge[ch], MinimumFee: sdkmath.NewInt(1), FeeReceive: sim.ExtAddrN(ch, "c18-fee", 1), BaseFee: sdkmath.ZeroInt()}); !r.OK() {
			return failf("harness", "batch: %v", r.Err)
		}
		var nonce uint64
		for _, b := range k.GetOutgoingTxBatches(ctx) {
			if b.TokenContract == t.Contracts[ch] {
				nonce = b.BatchNonce
			}
		}
		if _, err := f.Observe(ctx, ch, &crosschaintypes.MsgSendToExternalClaim{BatchNonce: nonce, TokenContract: t.Contracts[ch]}, k.GetLastObservedBlockHeight(ctx).ExternalBlockHeight); err != nil {
			return failf("harness", "batch executed: %v", err)
		}
	}
	// callee
	callee := sim.HexAddrN("c18-callee", 1)
	extSender := sim.ExtAddrN(ch, "c18-sender", 1)
	senderHex := crosschaintypes.ExternalAddrToHexAddr(ch, extSender)
	receiver := callee
	memo, data := "", ""
	mustFail, wrote := false, false
	switch c.Mode {
	case "callback":
		if c.Callee == "eoa" {
			callee = sim.HexAddrN("c18-eoa", 1)
			receiver = callee
		} else {
			if err := f.App.EvmKeeper.CreateContractWithCode(ctx, callee, c18Callees[c.Callee]); err != nil {
				return failf("harness", "install callee: %v", err)
			}
			mustFail = c.Callee != "sstore-ok"
			wrote = strings.HasPrefix(c.Callee, "sstore")
		}
		labels = append(labels, "callee:"+c.Callee)
	case "sendcallto":
		// the Runner holds tokens of its own, which its script moves before the epilogue
		f.InstallRunner(ctx, callee)
		usdt := f.Token("USDT")
		tr, _ := contract.GetFIP20().ABI.Pack("transfer", callee, big.NewInt(100_000))
		if r := f.EthTx(ctx, f.Users[0], &usdt.ERC20, nil, tr, 500_000); !r.Success() {
			return failf("harness", "fund runner: %v", r.Err)
		}
		ap, _ := contract.GetFIP20().ABI.Pack("approve", sim.CrosschainAddr, new(big.Int).Lsh(big.NewInt(1), 200))
		s := evmprog.Script{Epilogue: c.Epilogue, Calls: []evmprog.Call{{Target: usdt.ERC20, Kind: evmprog.KindCall, Catch: true, Data: ap, Note: "approve"}}}
		for _, st := range c.Steps {
			call := evmprog.Call{Kind: evmprog.KindCall, Catch: st.Catch}
			switch st.Kind {
			case "transfer":
				call.Target = usdt.ERC20
				call.Data, _ = contract.GetFIP20().ABI.Pack("transfer", f.Users[1].Hex(), big.NewInt(st.Amt))
			case "crosschain":
				call.Target = sim.CrosschainAddr
				call.Data, _ = crosschaintypes.GetABI().Pack("crossChain", usdt.ERC20, sim.ExtAddrN(ch, "c18-dest", 1), big.NewInt(st.Amt), big.NewInt(1), fxtypes.MustStrToByte32(ch), "")
			case "delegate":
				call.Target = usdt.ERC20
				call.Data, _ = contract.GetFIP20().ABI.Pack("transfer", f.Users[2].Hex(), big.NewInt(st.Amt+1))
			}
			call.Note = st.Kind
			s.Calls = append(s.Calls, call)
		}
		data = hex.EncodeToString(s.Encode())
		memo = hex.EncodeToString(crosschaintypes.MemoSendCallTo.Bytes())
		receiver = senderHex
		mustFail = c.Epilogue == evmprog.EpiRevert || c.Epilogue == evmprog.EpiInvalid || c.Epilogue == evmprog.EpiBurn
		wrote = true
		labels = append(labels, fmt.Sprintf("epilogue:%d", c.Epilogue), fmt.Sprintf("steps:%d", len(c.Steps)))
	}
	if c.DisablePair >= 0 {
		t := toks[c.DisablePair%len(toks)]
		if r := f.RunMsg(ctx, &erc20types.MsgToggleTokenConversion{Authority: gov, Token: t.Base}); !r.OK() {
			return failf("harness", "toggle: %v", r.Err)
		}
		mustFail = true
		if c.DisablePair%len(toks) > 0 {
			wrote = true
		}
		labels = append(labels, fmt.Sprintf("pair-disabled-at:%d/%d", c.DisablePair%len(toks), len(toks)))
	}
	var refund common.Address
	switch c.Refund {
	case "receiver":
		refund = receiver
	case "user":
		refund = f.Users[2].Hex()
	default:
		refund = sim.HexAddrN("c18-fresh-refund", 1)
	}
	claim := &crosschaintypes.MsgBridgeCallClaim{Sender: extSender, Refund: crosschaintypes.ExternalAddrToStr(ch, refund.Bytes()), To: crosschaintypes.ExternalAddrToStr(ch, callee.Bytes()),
		Data: data, Value: sdkmath.ZeroInt(), Memo: memo, TxOrigin: sim.ExtAddrN(ch, "c18-origin", 1)}
	for i, t := range toks {
		claim.TokenContracts = append(claim.TokenContracts, t.Contracts[ch])
		claim.Amounts = append(claim.Amounts, amts[i])
	}
	n, err := f.Observe(ctx, ch, claim, k.GetLastObservedBlockHeight(ctx).ExternalBlockHeight)
	if err != nil {
		return failf("harness", "observe: %v", err)
	}
	// pre-state
	e := newC08Env(f, ctx)
	tracked := map[string]common.Address{"receiver": receiver, "callee": callee, "refund address": refund, "sender": senderHex, "user 0": f.Users[0].Hex(), "user 1": f.Users[1].Hex(), "user 2": f.Users[2].Hex(), "executor": f.Users[3].Hex()}
	type holding struct{ who, tok string }
	pre := map[holding]*big.Int{}
	for who, addr := range tracked {
		for _, t := range f.Tokens {
			if who == "executor" && t.Kind == sim.KindFX {
				continue
			}
			pre[holding{who, t.Name}] = e.value(ctx, addr, t)
		}
	}
	supply := func() string {
		var parts []string
		for _, t := range f.Tokens {
			parts = append(parts, fmt.Sprintf("%s erc20=%s base=%s", t.Name, f.TotalSupply(ctx, t.ERC20), f.App.BankKeeper.GetSupply(ctx, t.Base).Amount))
			for _, chn := range baseChains {
				if d := t.Bridge[chn]; d != "" && d != t.Base {
					parts = append(parts, fmt.Sprintf("%s=%s", d, f.App.BankKeeper.GetSupply(ctx, d).Amount))
				}
			}
		}
		return strings.Join(parts, " ")
	}
	storage := func(a common.Address) string {
		var parts []string
		f.App.EvmKeeper.ForEachStorage(ctx, a, func(key, value common.Hash) bool {
			parts = append(parts, key.Hex()+"="+value.Hex())
			return true
		})
		sort.Strings(parts)
		return strings.Join(parts, ",")
	}
	supplyPre, storagePre := supply(), storage(callee)
	callsBefore := map[uint64]bool{}
	k.IterateOutgoingBridgeCalls(ctx, func(oc *crosschaintypes.OutgoingBridgeCall) bool { callsBefore[oc.Nonce] = true; return false })

	r := f.ExecuteClaim(ctx, f.Users[3], ch, n)

	var record *crosschaintypes.OutgoingBridgeCall
	k.IterateOutgoingBridgeCalls(ctx, func(oc *crosschaintypes.OutgoingBridgeCall) bool {
		if !callsBefore[oc.Nonce] {
			record = oc
		}
		return false
	})
	_, stillPending := k.GetPendingExecuteClaim(ctx, n)
	var tokNames []string
	for _, t := range toks {
		tokNames = append(tokNames, t.Name)
	}
	desc := fmt.Sprintf("inbound bridge call on %s (%s mode, callee %s, epilogue %d, %d steps, tokens %v amounts %v, pair disabled at %d, refund to the %s, gas limit variant %d)", ch, c.Mode, c.Callee, c.Epilogue, len(c.Steps), tokNames, claim.Amounts, c.DisablePair, c.Refund, c.GasLimit)
	failed := record != nil || !r.Success()
	if mustFail && !failed {
		return failf("C18/failed-call-treated-as-success", "%s: the follow-up must fail but the claim was settled without a refund record", desc)
	}
	sig := ev.Sig("bridgecall", ch, c.Mode, c.Callee, c.Epilogue, len(c.Steps), len(toks), c.DisablePair, c.Refund, c.GasLimit, failed)
	if !failed {
		// control: the call went through; the receiver holds the tokens
		for i, t := range toks {
			if got := new(big.Int).Sub(e.value(ctx, receiver, t), pre[holding{"receiver", t.Name}]); got.Cmp(amts[i].BigInt()) < 0 && c.Mode == "callback" {
				return failf("harness", "%s: control case: receiver got %s of %s", desc, got, amts[i])
			}
		}
		rec.Case(sig, false, append(labels, "outcome:call-succeeded")...)
		return nil
	}
	// the tolerated failure must settle the claim
	if !r.Success() || stillPending || record == nil {
		why := "executeClaim reverts"
		if r.Resp != nil {
			why += ": " + r.Resp.VmError
		}
		if r.Err != nil {
			why += ": " + r.Err.Error()
		}
		return failf("C18/claim-not-settled/refund-to-"+c.Refund, "%s: the follow-up failed, which is tolerated, but %s (still pending: %v, refund record: %v): the event can never be executed", desc, why, stillPending, record != nil)
	}
	// designated outcome: a refund record with exactly the claim's tokens
	if record.EventNonce != claim.EventNonce || len(record.Tokens) != len(toks) || record.Refund != claim.Refund {
		return failf("C18/refund-record", "%s: refund record %+v does not match the claim (event nonce %d, refund %s, %d tokens)", desc, record, claim.EventNonce, claim.Refund, len(toks))
	}
	want := map[string]sdkmath.Int{}
	for i, tc := range claim.TokenContracts {
		want[tc] = amts[i]
	}
	for _, tk := range record.Tokens {
		if w, ok := want[tk.Contract]; !ok || !w.Equal(tk.Amount) {
			return failf("C18/refund-record", "%s: refund record carries %s of %s, the claim carried %v", desc, tk.Amount, tk.Contract, want)
		}
	}
	// and nothing else: holdings, supplies, callee storage
	var whos []string
	for who := range tracked {
		whos = append(whos, who)
	}
	sort.Strings(whos)
	for _, who := range whos {
		for _, t := range f.Tokens {
			p, ok := pre[holding{who, t.Name}]
			if !ok {
				continue
			}
			if got := e.value(ctx, tracked[who], t); got.Cmp(p) != 0 {
				return failf("C18/failed-call-left-effects/holdings/"+strings.ReplaceAll(who, " ", "-")+"/refund-to-"+c.Refund, "%s: the follow-up failed and the claim was settled by refund record %d, yet the %s (%s) holds %s %s, before %s (change %s)", desc, record.Nonce, who, tracked[who].Hex()[:10], got, t.Name, p, new(big.Int).Sub(got, p))
			}
		}
	}
	if s := supply(); s != supplyPre {
		return failf("C18/failed-call-left-effects/supply", "%s: supplies changed:\n  before %s\n  after  %s", desc, supplyPre, s)
	}
	if s := storage(callee); s != storagePre {
		return failf("C18/failed-call-left-effects/callee-storage", "%s: the failed call's storage writes survive: %q -> %q", desc, storagePre, s)
	}
	rec.Case(sig, wrote, append(labels, "outcome:refund-record")...)
	if wrote && rec.WantSample() {
		rec.Sample(c)
	}
	return nil
}

// ---- passed proposal whose i-th message fails ------------------------------------------------

func runC18Proposal(c c18Case, rec *ev.Recorder) *Failure {
	f := base()
	gov := sim.GovAddr.String()
	n, failAt := c.N, c.FailAt%c.N
	exec := func(onlyFailing bool) (sim.Dump, govv1.Proposal, *Failure) {
		ctx, _ := f.Ctx.CacheContext()
		gk := f.App.GovKeeper
		params, _ := gk.Params.Get(ctx)
		params.MinDeposit = sdk.NewCoins(sim.FxCoin(100))
		d := 600 * time.Second
		params.VotingPeriod, params.MaxDepositPeriod = &d, &d
		half := 300 * time.Second
		params.ExpeditedVotingPeriod = &half
		params.ExpeditedMinDeposit = sdk.NewCoins(sim.FxCoin(500))
		if r := f.RunMsg(ctx, &govv1.MsgUpdateParams{Authority: gov, Params: params}); !r.OK() {
			return nil, govv1.Proposal{}, failf("harness", "gov params: %v", r.Err)
		}
		// no per-type overrides: both proposals use the same period and quorum
		for _, u := range []string{sdk.MsgTypeURL(&distrtypes.MsgCommunityPoolSpend{}), sdk.MsgTypeURL(&crosschaintypes.MsgUpdateChainOracles{}), sdk.MsgTypeURL(&erc20types.MsgToggleTokenConversion{})} {
			f.RunMsg(ctx, &fxgovtypes.MsgUpdateCustomParams{Authority: gov, MsgUrl: u})
		}
		var msgs []sdk.Msg
		chainOrder := []string{"eth", "bsc", "tron"}
		for i := 0; i < n; i++ {
			fail := i == failAt
			if onlyFailing && !fail {
				continue
			}
			switch c.MsgKind {
			case "spend":
				amt := sim.FxCoin(int64(10 + i))
				if fail {
					pool, _ := f.App.DistrKeeper.FeePool.Get(ctx)
					amt = sdk.NewCoin(fxtypes.DefaultDenom, pool.CommunityPool.AmountOf(fxtypes.DefaultDenom).TruncateInt().AddRaw(1))
				}
				msgs = append(msgs, &distrtypes.MsgCommunityPoolSpend{Authority: gov, Recipient: authtypes.NewModuleAddress(fmt.Sprintf("c18-recipient-%d", i)).String(), Amount: sdk.NewCoins(amt)})
			case "oracles":
				chn := chainOrder[i%3]
				if fail { // the handler panics on an undecodable stored list
					cur := ctx.KVStore(f.App.GetKey(chn)).Get(crosschaintypes.ProposalOracleKey)
					if r := f.RunMsg(ctx, &fxgovtypes.MsgUpdateStore{Authority: gov, UpdateStores: []fxgovtypes.UpdateStore{{Space: chn, Key: hex.EncodeToString(crosschaintypes.ProposalOracleKey), OldValue: hex.EncodeToString(cur), Value: "ff"}}}); !r.OK() {
						return nil, govv1.Proposal{}, failf("harness", "corrupt list: %v", r.Err)
					}
					msgs = append(msgs, &crosschaintypes.MsgUpdateChainOracles{ChainName: chn, Authority: gov, Oracles: []string{authtypes.NewModuleAddress("c18-oracle").String()}})
				} else {
					list, _ := f.Keeper(chn).GetProposalOracle(ctx)
					msgs = append(msgs, &crosschaintypes.MsgUpdateChainOracles{ChainName: chn, Authority: gov, Oracles: append(append([]string{}, list.Oracles...), authtypes.NewModuleAddress(fmt.Sprintf("c18-oracle-%d", i)).String())})
				}
			case "toggle":
				tok := []string{"usdt", "ext", fxtypes.DefaultDenom}[i%3]
				if fail {
					tok = "no-such-token" // refused by the handler: no such pair
				}
				msgs = append(msgs, &erc20types.MsgToggleTokenConversion{Authority: gov, Token: tok})
			}
		}
		// corrupt the list in both variants alike (the corruption belongs to the pre-state)
		if c.MsgKind == "oracles" && onlyFailing {
			// already done above for the failing message
		}
		m, err := govv1.NewMsgSubmitProposal(msgs, sdk.NewCoins(sim.FxCoin(100)), f.Users[0].Acc().String(), "", "c18", "summary", false)
		if err != nil {
			return nil, govv1.Proposal{}, failf("harness", "proposal: %v", err)
		}
		id, _ := gk.ProposalID.Peek(ctx)
		if r := f.RunMsg(ctx, m); !r.OK() {
			return nil, govv1.Proposal{}, failf("harness", "submit: %v", r.Err)
		}
		for _, v := range f.ValKeys {
			if r := f.RunMsg(ctx, govv1.NewMsgVote(v.Acc(), id, govv1.OptionYes, "")); !r.OK() {
				return nil, govv1.Proposal{}, failf("harness", "vote: %v", r.Err)
			}
		}
		ctx = ctx.WithBlockTime(ctx.BlockTime().Add(601 * time.Second)).WithBlockHeight(ctx.BlockHeight() + 1)
		if err := fxgov.EndBlocker(ctx, gk); err != nil {
			return nil, govv1.Proposal{}, failf("C18/endblock-error", "gov end blocker: %v", err)
		}
		p, err := gk.Proposals.Get(ctx, id)
		if err != nil {
			return nil, govv1.Proposal{}, failf("harness", "proposal %d: %v", id, err)
		}
		return f.DumpStores(ctx), p, nil
	}
	full, pFull, fl := exec(false)
	if fl != nil {
		return fl
	}
	alone, pAlone, fl := exec(true)
	if fl != nil {
		return fl
	}
	desc := fmt.Sprintf("proposal of %d %s messages, message %d fails", n, c.MsgKind, failAt)
	if pAlone.Status != govv1.StatusFailed {
		return failf("harness", "%s: the failing message alone ends as %s (%s)", desc, pAlone.Status, pAlone.FailedReason)
	}
	if pFull.Status != govv1.StatusFailed {
		return failf("C18/failed-message-tolerated-as-success/"+c.MsgKind, "%s: the proposal ended as %s", desc, pFull.Status)
	}
	for _, d := range sim.Diff(alone, full) {
		if d.Store == govtypes.StoreKey {
			continue // the proposal's own record (messages, failure text)
		}
		return failf("C18/failed-proposal-left-effects/"+c.MsgKind, "%s: compared with a proposal that consists of the failing message alone, the state differs outside the governance store: %s", desc, d.String())
	}
	rec.Case(ev.Sig("proposal", c.MsgKind, n, failAt), failAt > 0, "boundary:proposal", "msgs:"+c.MsgKind, fmt.Sprintf("fail-at:%d/%d", failAt, n))
	if failAt > 0 && rec.WantSample() {
		rec.Sample(c)
	}
	return nil
}

func init() { registerReplay("C18", runC18) }

func TestC18(t *testing.T) { drive(t, "C18", genC18, runC18) }
