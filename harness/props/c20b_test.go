package props

import (
	"fmt"
	"strings"
	"sync"
	"testing"

	sdkmath "cosmossdk.io/math"
	sdk "github.com/cosmos/cosmos-sdk/types"
	sdkerrors "github.com/cosmos/cosmos-sdk/types/errors"
	"github.com/cosmos/cosmos-sdk/x/authz"
	banktypes "github.com/cosmos/cosmos-sdk/x/bank/types"
	distrtypes "github.com/cosmos/cosmos-sdk/x/distribution/types"
	govv1 "github.com/cosmos/cosmos-sdk/x/gov/types/v1"
	"pgregory.net/rapid"

	fxcfg "github.com/functionx/fx-core/v8/server/config"
	fxtypes "github.com/functionx/fx-core/v8/types"

	"verif/harness/ev"
	"verif/harness/sim"
)

// ---------------------------------------------------------------------------------------------
// C20 (B) — the minimum-fee bypass rule. Independent specification:
//   bypass  <=> n >= 1 and every message type is in the node's exempt list and gas <= n * allowance
//   meets   <=> no minimum price configured, or for some configured denom fee[d] >= ceil(price[d] * gas)
//   admitted to the mempool (ante handler in CheckTx mode returns nil)  =>  bypass or meets
// Apps are built with generated node configuration (exempt types, per-message allowance); the
// node's min gas prices, the message list, the gas limit and the fee are generated around the
// boundaries n*allowance-1 / = / +1 and ceil(price*gas)-1 / = / +1.
// ---------------------------------------------------------------------------------------------

var c20bCandidates = []string{
	"/cosmos.bank.v1beta1.MsgSend",
	"/cosmos.distribution.v1beta1.MsgSetWithdrawAddress",
	"/cosmos.gov.v1.MsgVote",
	"/cosmos.authz.v1beta1.MsgExec",
}

type c20bCase struct {
	Exempt    []int    `json:"exempt_type_indexes"` // indexes into candidates
	Allowance uint64   `json:"allowance"`
	MinPrices string   `json:"min_gas_prices"`
	Msgs      []string `json:"msgs"` // kinds: send | setwithdraw | vote | exec(send) | exec(vote)
	Gas       uint64   `json:"gas"`
	Fee       string   `json:"fee"`
}

type c20bApp struct {
	f *sim.Fixture
}

var (
	c20bMu   sync.Mutex
	c20bApps = map[string]*c20bApp{}
)

func c20bGetApp(exempt []int, allowance uint64) *c20bApp {
	key := fmt.Sprint(exempt, allowance)
	c20bMu.Lock()
	defer c20bMu.Unlock()
	if a, ok := c20bApps[key]; ok {
		return a
	}
	var types []string
	for _, i := range exempt {
		types = append(types, c20bCandidates[i])
	}
	f := sim.NewFixture(sim.FixtureOptions{NumUsers: 2, Chain: sim.Options{NumVals: 1, AppOpts: map[string]interface{}{
		fxcfg.BypassMinFeeMsgTypesKey:       types,
		fxcfg.BypassMinFeeMsgMaxGasUsageKey: allowance,
	}}})
	f.Mint(f.Ctx, f.Users[0].Acc(), sdk.NewCoin("usdt", sdkmath.NewInt(1_000_000_000_000)))
	a := &c20bApp{f: f}
	c20bApps[key] = a
	return a
}

var c20bConfigs = [][]int{{}, {0}, {0, 2}, {1}, {0, 1, 2}, {3}, {0, 3}}
var c20bAllowances = []uint64{0, 60_000, 200_000}
var c20bPrices = []string{"", "4000000000000FX", "0.5FX", "3FX,2usdt", "0.000000000000000001FX", "7usdt"}

func genC20B(t *rapid.T) c20bCase {
	c := c20bCase{
		Exempt:    c20bConfigs[rapid.IntRange(0, len(c20bConfigs)-1).Draw(t, "cfg")],
		Allowance: rapid.SampledFrom(c20bAllowances).Draw(t, "allowance"),
		MinPrices: rapid.SampledFrom(c20bPrices).Draw(t, "prices"),
	}
	n := rapid.IntRange(1, 5).Draw(t, "n")
	// bias towards all-exempt lists: pick kinds from the exempt ones most of the time
	kinds := []string{"send", "setwithdraw", "vote", "exec(send)", "exec(vote)"}
	kindURL := map[string]int{"send": 0, "setwithdraw": 1, "vote": 2, "exec(send)": 3, "exec(vote)": 3}
	var exemptKinds []string
	for _, k := range kinds {
		for _, e := range c.Exempt {
			if kindURL[k] == e {
				exemptKinds = append(exemptKinds, k)
			}
		}
	}
	for i := 0; i < n; i++ {
		if len(exemptKinds) > 0 && rapid.IntRange(0, 9).Draw(t, "exemptbias") < 7 {
			c.Msgs = append(c.Msgs, rapid.SampledFrom(exemptKinds).Draw(t, "ek"))
		} else {
			c.Msgs = append(c.Msgs, rapid.SampledFrom(kinds).Draw(t, "k"))
		}
	}
	// gas around n*allowance, or a typical sufficient value
	na := uint64(n) * c.Allowance
	switch rapid.IntRange(0, 5).Draw(t, "gask") {
	case 0:
		if na > 0 {
			c.Gas = na - 1
		} else {
			c.Gas = 0
		}
	case 1:
		c.Gas = na
	case 2:
		c.Gas = na + 1
	case 3:
		c.Gas = 1_000_000
	default:
		c.Gas = rapid.Uint64Range(0, 1_500_000).Draw(t, "gas")
	}
	// fee around ceil(price*gas) in one of the price denoms, or zero, or another denom
	prices, _ := sdk.ParseDecCoins(c.MinPrices)
	fee := sdk.NewCoins()
	switch rapid.IntRange(0, 5).Draw(t, "feek") {
	case 0: // zero fee
	case 1: // other denom
		fee = sdk.NewCoins(sdk.NewCoin("usdt", sdkmath.NewInt(rapid.Int64Range(1, 1000).Draw(t, "of"))))
	default:
		if len(prices) > 0 {
			p := prices[rapid.IntRange(0, len(prices)-1).Draw(t, "pd")]
			req := p.Amount.Mul(sdkmath.LegacyNewDec(int64(c.Gas))).Ceil().RoundInt()
			delta := int64(rapid.IntRange(-1, 1).Draw(t, "delta"))
			amt := req.AddRaw(delta)
			if amt.IsPositive() {
				fee = sdk.NewCoins(sdk.NewCoin(p.Denom, amt))
			}
		} else {
			fee = sdk.NewCoins(sdk.NewCoin(fxtypes.DefaultDenom, sdkmath.NewInt(rapid.Int64Range(0, 1000).Draw(t, "ff"))))
		}
	}
	c.Fee = fee.String()
	return c
}

func runC20B(c c20bCase, rec *ev.Recorder) *Failure {
	a := c20bGetApp(c.Exempt, c.Allowance)
	f := a.f
	u := f.Users[0]
	var msgs []sdk.Msg
	mk := func(kind string) sdk.Msg {
		switch kind {
		case "send":
			return &banktypes.MsgSend{FromAddress: u.Acc().String(), ToAddress: f.Users[1].Acc().String(), Amount: sdk.NewCoins(sdk.NewCoin(fxtypes.DefaultDenom, sdkmath.NewInt(1)))}
		case "setwithdraw":
			return &distrtypes.MsgSetWithdrawAddress{DelegatorAddress: u.Acc().String(), WithdrawAddress: f.Users[1].Acc().String()}
		case "vote":
			return govv1.NewMsgVote(u.Acc(), 1, govv1.OptionYes, "")
		}
		return nil
	}
	for _, k := range c.Msgs {
		switch k {
		case "exec(send)":
			m := authz.NewMsgExec(u.Acc(), []sdk.Msg{mk("send")})
			msgs = append(msgs, &m)
		case "exec(vote)":
			m := authz.NewMsgExec(u.Acc(), []sdk.Msg{mk("vote")})
			msgs = append(msgs, &m)
		default:
			msgs = append(msgs, mk(k))
		}
	}
	fee, err := sdk.ParseCoinsNormalized(c.Fee)
	if err != nil {
		return failf("harness", "fee parse: %v", err)
	}
	ctx, _ := f.Ctx.CacheContext()
	txBytes, err := f.SignTx(ctx, sim.TxSpec{Msgs: msgs, Signers: []sim.Key{u}, Gas: c.Gas, Fee: fee})
	if err != nil {
		return failf("harness", "sign: %v", err)
	}
	tx, err := f.App.GetTxConfig().TxDecoder()(txBytes)
	if err != nil {
		return failf("harness", "decode own tx: %v", err)
	}
	prices, err := sdk.ParseDecCoins(c.MinPrices)
	if err != nil {
		return failf("harness", "prices parse: %v", err)
	}
	ctx = ctx.WithIsCheckTx(true).WithMinGasPrices(prices).WithTxBytes(txBytes)
	var aerr error
	if fl := catchPanic("AnteHandler", func() { _, aerr = f.App.AnteHandler()(ctx, tx, false) }); fl != nil {
		return fl
	}
	// independent specification
	exempt := map[string]bool{}
	for _, i := range c.Exempt {
		exempt[c20bCandidates[i]] = true
	}
	all := len(msgs) >= 1
	for _, m := range msgs {
		if !exempt[sdk.MsgTypeURL(m)] {
			all = false
		}
	}
	n := uint64(len(msgs))
	bypass := all && c.Gas <= n*c.Allowance
	meets := prices.IsZero()
	for _, p := range prices {
		req := p.Amount.Mul(sdkmath.LegacyNewDec(int64(c.Gas))).Ceil().RoundInt()
		if fee.AmountOf(p.Denom).GTE(req) {
			meets = true
		}
	}
	admitted := aerr == nil
	if admitted && !bypass && !meets {
		return failf("C20/fee/admitted-below-min", "tx admitted to the mempool although not exempt (all-exempt=%v gas=%d n*allowance=%d) and fee %s below min prices %s: %+v", all, c.Gas, n*c.Allowance, fee, c.MinPrices, c)
	}
	outcome := "admitted"
	if aerr != nil {
		outcome = "rejected-other"
		if sdkerrors.ErrInsufficientFee.Is(aerr) {
			outcome = "rejected-insufficient-fee"
		}
	}
	if !bypass && !meets && outcome == "rejected-other" {
		rec.Label("below-min-rejected-for-other-reason", 1)
	}
	nearGas := c.Gas+1 >= n*c.Allowance && c.Gas <= n*c.Allowance+1
	nearFee := false
	for _, p := range prices {
		req := p.Amount.Mul(sdkmath.LegacyNewDec(int64(c.Gas))).Ceil().RoundInt()
		d := fee.AmountOf(p.Denom).Sub(req)
		if d.Abs().LTE(sdkmath.OneInt()) {
			nearFee = true
		}
	}
	nontrivial := nearGas || nearFee
	rec.Case(ev.Sig("feeB", c.Exempt, c.Allowance, c.MinPrices, strings.Join(c.Msgs, ","), nearGas, nearFee, outcome), nontrivial,
		"feerule:"+outcome, fmt.Sprintf("feerule:bypass=%v,meets=%v", bypass, meets))
	if nontrivial && rec.WantSample() {
		rec.Sample(c)
	}
	return nil
}

func init() { registerReplay("C20B", runC20B) }

func TestC20B(t *testing.T) {
	rec := ev.Get("C20")
	rapidDriveInto(t, "C20", "C20B", rec, genC20B, runC20B)
}
