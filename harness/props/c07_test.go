package props

import (
	"crypto/sha256"
	"encoding/hex"
	"fmt"
	"math/big"
	"strconv"
	"strings"
	"testing"
	"time"

	sdkmath "cosmossdk.io/math"
	abci "github.com/cometbft/cometbft/abci/types"
	sdk "github.com/cosmos/cosmos-sdk/types"
	banktypes "github.com/cosmos/cosmos-sdk/x/bank/types"
	distrtypes "github.com/cosmos/cosmos-sdk/x/distribution/types"
	govv1 "github.com/cosmos/cosmos-sdk/x/gov/types/v1"
	stakingtypes "github.com/cosmos/cosmos-sdk/x/staking/types"
	"github.com/ethereum/go-ethereum/common"
	"github.com/ethereum/go-ethereum/crypto"
	"github.com/evmos/ethermint/crypto/ethsecp256k1"
	"pgregory.net/rapid"

	"github.com/functionx/fx-core/v8/contract"
	fxtypes "github.com/functionx/fx-core/v8/types"
	crosschaintypes "github.com/functionx/fx-core/v8/x/crosschain/types"
	erc20types "github.com/functionx/fx-core/v8/x/erc20/types"
	fxevmtypes "github.com/functionx/fx-core/v8/x/evm/types"
	fxgovtypes "github.com/functionx/fx-core/v8/x/gov/types"
	migratetypes "github.com/functionx/fx-core/v8/x/migrate/types"
	stakingprecompile "github.com/functionx/fx-core/v8/x/staking/types"

	"verif/harness/ev"
	"verif/harness/sim"
)

// ---------------------------------------------------------------------------------------------
// C07 — block processing never halts. A fresh chain per case; operations are applied to the block
// being built (real handlers) and every "block" step runs the real FinalizeBlock + Commit with all
// begin / end blockers. Oracle: FinalizeBlock and Commit neither return an error nor panic.
// ---------------------------------------------------------------------------------------------

type c07Op struct {
	Kind  string `json:"kind"`
	Chain int    `json:"chain"`
	U     int    `json:"u"`
	O     int    `json:"o"`
	Tok   int    `json:"tok"`
	Amt   int64  `json:"amt"`
	What  int    `json:"what"`
	Dt    int    `json:"dt"`
	Mask  uint32 `json:"mask"`
}

type c07Case struct {
	NumOracles   int     `json:"n_oracles"`
	NumChains    int     `json:"n_chains"`
	SignedWindow uint64  `json:"signed_window"`
	Ops          []c07Op `json:"ops"`
}

var c07Dts = []time.Duration{5 * time.Second, 5 * time.Second, 5 * time.Second, time.Hour, 15 * 24 * time.Hour, 22 * 24 * time.Hour}

func genC07(t *rapid.T) c07Case {
	c := c07Case{NumOracles: rapid.IntRange(2, 4).Draw(t, "oracles"), NumChains: rapid.IntRange(1, 2).Draw(t, "chains"), SignedWindow: rapid.Uint64Range(2, 6).Draw(t, "sw")}
	max := 45
	if thorough() {
		max = 90
	}
	n := rapid.IntRange(8, max).Draw(t, "n")
	kinds := []string{"block", "block", "block", "block", "block", "block", "deposit", "send", "batch", "bridgecall", "bridgecall", "confirm", "confirm", "proposal", "vote", "govoracles", "adddelegate", "unbond", "delegate", "absent", "convert", "ethtx", "ethtx", "cosmostx", "valvote", "migrate"}
	for i := 0; i < n; i++ {
		if rapid.IntRange(0, 14).Draw(t, "quiet") == 0 {
			// a quiet stretch: every oracle confirms everything, then one stake grows by a little (a small
			// power difference with nobody slashed), then blocks pass
			ch := rapid.IntRange(0, 1).Draw(t, "qchain")
			for o := 0; o < c.NumOracles; o++ {
				c.Ops = append(c.Ops, c07Op{Kind: "confirm", Chain: ch, O: o, What: 0})
			}
			c.Ops = append(c.Ops, c07Op{Kind: "adddelegate", Chain: ch, O: rapid.IntRange(0, 3).Draw(t, "qo"), Amt: rapid.SampledFrom([]int64{100, 100, 200, 300, 1000}).Draw(t, "qamt")},
				c07Op{Kind: "block"}, c07Op{Kind: "block"})
			continue
		}
		if rapid.IntRange(0, 9).Draw(t, "expire") == 0 {
			// batches of two or three different tokens on one chain (one per block), then an event whose external height is far
			// beyond every timeout: all of them (and every open bridge call) are released while that one event is processed
			ch := rapid.IntRange(0, 1).Draw(t, "xchain")
			for _, tk := range rapid.Permutation([]int{0, 1, 2}).Draw(t, "xtoks")[:rapid.IntRange(2, 3).Draw(t, "xn")] {
				c.Ops = append(c.Ops, c07Op{Kind: "batch", Chain: ch, U: rapid.IntRange(0, 2).Draw(t, "xu"), Tok: tk, Amt: rapid.Int64Range(1, 300).Draw(t, "xamt")}, c07Op{Kind: "block"})
			}
			c.Ops = append(c.Ops, c07Op{Kind: "deposit", Chain: ch, U: 1, Amt: 5, What: 99}, c07Op{Kind: "block"})
			continue
		}
		c.Ops = append(c.Ops, c07Op{Kind: rapid.SampledFrom(kinds).Draw(t, "kind"), Chain: rapid.IntRange(0, 1).Draw(t, "chain"), U: rapid.IntRange(0, 2).Draw(t, "u"),
			O: rapid.IntRange(0, 3).Draw(t, "o"), Tok: rapid.IntRange(0, 2).Draw(t, "tok"), Amt: rapid.Int64Range(1, 3000).Draw(t, "amt"), What: rapid.IntRange(0, 9).Draw(t, "what"),
			Dt: rapid.IntRange(0, len(c07Dts)-1).Draw(t, "dt"), Mask: rapid.Uint32Range(1, 15).Draw(t, "mask")})
	}
	return c
}

func runC07(c c07Case, rec *ev.Recorder) *Failure { return execC07(c, rec, nil) }

// execC07 interprets a history on a fresh chain. rec may be nil (replica runs of C17); tr, when not
// nil, collects everything an observer of the chain can see: the outcome and events of every
// operation applied to the block being built, and per block the application hash, the transaction
// results and the event list of FinalizeBlock.
func execC07(c c07Case, rec *ev.Recorder, tr *c07Trace) *Failure {
	chains := []string{"eth", "tron"}[:c.NumChains]
	f := sim.NewFixture(sim.FixtureOptions{Chains: chains, Tokens: true, NumUsers: 3, OraclesPerChain: c.NumOracles})
	gov := sim.GovAddr.String()
	ctx := func() sdk.Context { return f.Ctx }
	if tr != nil {
		// every message executed at message level - also the oracle votes cast inside Observe, whose events carry what the
		// event's processing released or cancelled - is part of what an observer sees
		f.Tap = tr.msg
	}
	run := func(m sdk.Msg) sim.Result {
		return f.RunMsg(ctx(), m)
	}
	var pendingTxs [][]byte
	seqDelta := map[string]uint64{}
	next := func(dt time.Duration) error {
		res, err := f.NextBlock(pendingTxs, dt)
		pendingTxs, seqDelta = nil, map[string]uint64{}
		tr.block(f, res, err)
		return err
	}
	observe := func(ch string, claim crosschaintypes.ExternalClaim, h uint64) (uint64, error) {
		n, err := f.Observe(ctx(), ch, claim, h)
		tr.note(fmt.Sprintf("observe %s %T -> %d %v", ch, claim, n, err))
		return n, err
	}
	execClaim := func(caller sim.Key, ch string, n uint64) {
		r := f.ExecuteClaim(ctx(), caller, ch, n)
		tr.eth("executeClaim", r)
	}
	for _, ch := range chains {
		p := f.Keeper(ch).GetParams(ctx())
		p.SignedWindow = c.SignedWindow
		if r := run(&crosschaintypes.MsgUpdateParams{ChainName: ch, Authority: gov, Params: p}); !r.OK() {
			return failf("harness", "params: %v", r.Err)
		}
	}
	// user 0 carries the governance voting power
	if r := run(stakingtypes.NewMsgDelegate(f.Users[0].Acc().String(), f.ValKeys[0].Val().String(), sim.FxCoin(50_000))); !r.OK() {
		return failf("harness", "delegate: %v", r.Err)
	}
	extH := map[string]uint64{}
	for _, ch := range chains {
		extH[ch] = 1000
	}
	// an initial deposit per chain: an external height is observed and user 0..2 hold the bridged token
	for _, ch := range chains {
		for i, uu := range f.Users {
			claim := &crosschaintypes.MsgSendToFxClaim{TokenContract: f.Token("USDT").Contracts[ch], Amount: sdkmath.NewInt(1_000_000), Sender: sim.ExtAddrN(ch, "ext", i), Receiver: uu.Acc().String()}
			n, err := observe(ch, claim, extH[ch])
			if err != nil {
				return failf("harness", "initial deposit: %v", err)
			}
			execClaim(f.Users[1], ch, n)
		}
	}
	// every user holds some of the bridged token as ERC-20 and has approved the crosschain precompile
	for _, uu := range f.Users {
		run(&erc20types.MsgConvertCoin{Coin: sdk.NewCoin(f.Token("USDT").Base, sdkmath.NewInt(300_000)), Receiver: uu.Hex().String(), Sender: uu.Acc().String()})
		data, _ := contract.GetFIP20().ABI.Pack("approve", sim.CrosschainAddr, new(big.Int).Lsh(big.NewInt(1), 200))
		erc20Addr := f.Token("USDT").ERC20
		tr.eth("approve", f.EthTx(ctx(), uu, &erc20Addr, nil, data, 500_000))
	}
	migrated := map[int]bool{}
	labels := map[string]bool{}
	var proposals []uint64
	blocks := 0
	agedUnconfirmed := false
	proposalEnded := false
	usdt, ext := f.Token("USDT"), f.Token("EXT")
	_ = ext
	checkAged := func() {
		// an online oracle has left an object older than the signed window unconfirmed
		for _, ch := range chains {
			k := f.Keeper(ch)
			h := uint64(ctx().BlockHeight())
			if h <= c.SignedWindow {
				continue
			}
			k.IterateOutgoingBridgeCalls(ctx(), func(oc *crosschaintypes.OutgoingBridgeCall) bool {
				if oc.BlockHeight+c.SignedWindow <= h {
					for _, o := range k.GetAllOracles(ctx(), true) {
						if !k.HasBridgeCallConfirm(ctx(), oc.Nonce, o.GetOracle()) {
							agedUnconfirmed = true
							labels["aged-unconfirmed-bridge-call"] = true
						}
					}
				}
				return false
			})
			for _, b := range k.GetOutgoingTxBatches(ctx()) {
				if b.Block+c.SignedWindow <= h {
					for _, o := range k.GetAllOracles(ctx(), true) {
						if k.GetBatchConfirm(ctx(), b.TokenContract, b.BatchNonce, o.GetOracle()) == nil {
							agedUnconfirmed = true
							labels["aged-unconfirmed-batch"] = true
						}
					}
				}
			}
			k.IterateOracleSets(ctx(), false, func(os *crosschaintypes.OracleSet) bool {
				if os.Height+c.SignedWindow <= h {
					for _, o := range k.GetAllOracles(ctx(), true) {
						if k.GetOracleSetConfirm(ctx(), os.Nonce, o.GetOracle()) == nil {
							agedUnconfirmed = true
							labels["aged-unconfirmed-oracle-set"] = true
						}
					}
				}
				return false
			})
		}
	}
	for si, op := range c.Ops {
		ch := chains[op.Chain%len(chains)]
		k := f.Keeper(ch)
		keys := f.Oracles[ch]
		u := f.Users[op.U%len(f.Users)]
		tok := f.Tokens[op.Tok%len(f.Tokens)]
		if _, ok := tok.Contracts[ch]; !ok {
			tok = usdt
		}
		desc := fmt.Sprintf("step %d %+v", si, op)
		switch op.Kind {
		case "block":
			checkAged()
			before := len(proposals)
			_ = before
			if err := next(c07Dts[op.Dt%len(c07Dts)]); err != nil {
				site := panicSite(err.Error())
				return failf("C07/block-halts/"+site, "%s: block %d cannot be processed: %v\nhistory so far: %s", desc, f.Height+1, trimErr(err), c07History(c.Ops[:si+1]))
			}
			blocks++
			for _, id := range proposals {
				if p, err := f.App.GovKeeper.Proposals.Get(ctx(), id); err == nil && (p.Status == govv1.StatusPassed || p.Status == govv1.StatusFailed || p.Status == govv1.StatusRejected) {
					proposalEnded = true
					labels["proposal-ended:"+p.Status.String()] = true
				}
			}
		case "deposit":
			extH[ch] += uint64(op.What)
			if op.What == 99 {
				extH[ch] += 100_000_000 // far beyond every batch and bridge-call timeout
				nb := 0
				f.Keeper(ch).IterateOutgoingTxBatches(ctx(), func(*crosschaintypes.OutgoingTxBatch) bool { nb++; return false })
				if nb >= 2 {
					labels["several-batches-time-out-under-one-event"] = true
				}
			}
			claim := &crosschaintypes.MsgSendToFxClaim{TokenContract: usdt.Contracts[ch], Amount: sdkmath.NewInt(op.Amt * 1000), Sender: sim.ExtAddrN(ch, "ext", 1), Receiver: u.Acc().String()}
			if n, err := observe(ch, claim, extH[ch]); err == nil {
				execClaim(f.Users[1], ch, n)
				labels["deposit"] = true
			}
		case "send":
			run(&crosschaintypes.MsgSendToExternal{ChainName: ch, Sender: u.Acc().String(), Dest: sim.ExtAddrN(ch, "dest", 1), Amount: sdk.NewCoin(tok.Base, sdkmath.NewInt(op.Amt)), BridgeFee: sdk.NewCoin(tok.Base, sdkmath.NewInt(int64(1+op.What)))})
		case "batch":
			run(&crosschaintypes.MsgSendToExternal{ChainName: ch, Sender: u.Acc().String(), Dest: sim.ExtAddrN(ch, "dest", 2), Amount: sdk.NewCoin(tok.Base, sdkmath.NewInt(op.Amt)), BridgeFee: sdk.NewCoin(tok.Base, sdkmath.NewInt(int64(100+si)))})
			if r := run(&crosschaintypes.MsgRequestBatch{ChainName: ch, Sender: keys[0].Bridger.Acc().String(), Denom: tok.Bridge[ch], MinimumFee: sdkmath.NewInt(1), FeeReceive: sim.ExtAddrN(ch, "feercv", 1), BaseFee: sdkmath.ZeroInt()}); r.OK() {
				labels["batch"] = true
			}
		case "bridgecall":
			if r := run(&crosschaintypes.MsgBridgeCall{ChainName: ch, Sender: u.Acc().String(), Refund: u.Acc().String(), To: sim.ExtAddrN(ch, "to", 1), Coins: sdk.NewCoins(sdk.NewCoin(usdt.Base, sdkmath.NewInt(op.Amt))), Data: "01", Value: sdkmath.ZeroInt()}); r.OK() {
				labels["bridgecall"] = true
			}
		case "confirm":
			// oracle o confirms pending objects selected by `what` (0-2: everything, 3: only oracle sets, 4: only batches, 5: only calls, 6+: nothing)
			ok := keys[op.O%len(keys)]
			if op.What <= 3 {
				k.IterateOracleSets(ctx(), false, func(os *crosschaintypes.OracleSet) bool {
					if m := f.OracleSetConfirmMsg(ctx(), ch, ok, os); m != nil {
						run(m)
					}
					return false
				})
			}
			if op.What <= 2 || op.What == 4 {
				for _, b := range k.GetOutgoingTxBatches(ctx()) {
					if m := f.BatchConfirmMsg(ctx(), ch, ok, b); m != nil {
						run(m)
					}
				}
			}
			if op.What <= 2 || op.What == 5 {
				k.IterateOutgoingBridgeCalls(ctx(), func(oc *crosschaintypes.OutgoingBridgeCall) bool {
					if m := f.BridgeCallConfirmMsg(ctx(), ch, ok, oc); m != nil {
						run(m)
					}
					return false
				})
			}
		case "proposal":
			var msgs []sdk.Msg
			switch op.What {
			case 0: // text only
			case 1:
				p := k.GetParams(ctx())
				p.SignedWindow = uint64(2 + op.Amt%5)
				msgs = []sdk.Msg{&crosschaintypes.MsgUpdateParams{ChainName: ch, Authority: gov, Params: p}}
			case 2: // reverting contract call
				data, _ := contract.GetFIP20().ABI.Pack("mint", u.Hex(), sim.BigInt(5))
				msgs = []sdk.Msg{&fxevmtypes.MsgCallContract{Authority: gov, ContractAddress: usdt.ERC20.String(), Data: fmt.Sprintf("%x", data)}}
			case 3: // raw store update with a wrong old value
				msgs = []sdk.Msg{&fxgovtypes.MsgUpdateStore{Authority: gov, UpdateStores: []fxgovtypes.UpdateStore{{Space: ch, Key: "24", OldValue: "ffff", Value: "00"}}}}
			case 4: // oracle list shrinking by more than allowed
				msgs = []sdk.Msg{&crosschaintypes.MsgUpdateChainOracles{ChainName: ch, Authority: gov, Oracles: []string{keys[0].Oracle.Acc().String()}}}
			case 5: // over-spending the community pool
				msgs = []sdk.Msg{&distrtypes.MsgCommunityPoolSpend{Authority: gov, Recipient: u.Acc().String(), Amount: sdk.NewCoins(sim.FxCoin(1_000_000_000))}}
			case 6:
				msgs = []sdk.Msg{&fxgovtypes.MsgUpdateSwitchParams{Authority: gov, Params: fxgovtypes.SwitchParams{DisablePrecompiles: []string{contract.StakingAddress}}}}
			case 7: // two messages, the second fails
				p := k.GetParams(ctx())
				bad := p
				bad.SignedWindow = 0
				msgs = []sdk.Msg{&crosschaintypes.MsgUpdateParams{ChainName: ch, Authority: gov, Params: p}, &crosschaintypes.MsgUpdateParams{ChainName: ch, Authority: gov, Params: bad}}
			case 8: // oracle list change that is allowed (drop the last oracle if it is small enough, add a new one)
				var list []string
				for i, kk := range keys {
					if op.Mask&(1<<uint(i)) != 0 {
						list = append(list, kk.Oracle.Acc().String())
					}
				}
				list = append(list, sim.NewOracleKeys(ch, 9).Oracle.Acc().String())
				msgs = []sdk.Msg{&crosschaintypes.MsgUpdateChainOracles{ChainName: ch, Authority: gov, Oracles: list}}
			default:
				msgs = []sdk.Msg{&fxgovtypes.MsgUpdateCustomParams{Authority: gov, MsgUrl: "/fx.evm.v1.MsgCallContract", CustomParams: fxgovtypes.CustomParams{DepositRatio: "0.1", VotingPeriod: durPtr(time.Hour), Quorum: "0.2"}}}
			}
			dep := sim.FxCoin(10_000)
			if op.Amt%4 == 0 {
				dep = sim.FxCoin(1) // stays in the deposit period and is dropped later
			}
			m, err := govv1.NewMsgSubmitProposal(msgs, sdk.NewCoins(dep), u.Acc().String(), "", fmt.Sprintf("p%d", si), "summary", false)
			if err != nil {
				return failf("harness", "proposal: %v", err)
			}
			if r := run(m); r.OK() {
				id, _ := f.App.GovKeeper.ProposalID.Peek(ctx())
				proposals = append(proposals, id-1)
				labels["proposal"] = true
				if op.Mask&3 != 0 { // mostly voted through right away by the account holding the voting power
					run(govv1.NewMsgVote(f.Users[0].Acc(), id-1, govv1.OptionYes, ""))
				}
			}
		case "vote":
			if len(proposals) == 0 {
				break
			}
			id := proposals[op.What%len(proposals)]
			opt := []govv1.VoteOption{govv1.OptionYes, govv1.OptionYes, govv1.OptionNo, govv1.OptionNoWithVeto, govv1.OptionAbstain}[op.Amt%5]
			run(govv1.NewMsgVote(f.Users[0].Acc(), id, opt, ""))
		case "govoracles":
			var list []string
			for i, kk := range keys {
				if op.Mask&(1<<uint(i)) != 0 {
					list = append(list, kk.Oracle.Acc().String())
				}
			}
			if len(list) > 0 {
				run(&crosschaintypes.MsgUpdateChainOracles{ChainName: ch, Authority: gov, Oracles: list})
			}
		case "adddelegate":
			run(&crosschaintypes.MsgAddDelegate{ChainName: ch, OracleAddress: keys[op.O%len(keys)].Oracle.Acc().String(), Amount: sim.FxCoin(op.Amt)})
		case "unbond":
			run(&crosschaintypes.MsgUnbondedOracle{ChainName: ch, OracleAddress: keys[op.O%len(keys)].Oracle.Acc().String()})
		case "delegate":
			run(stakingtypes.NewMsgDelegate(u.Acc().String(), f.ValKeys[op.O%len(f.ValKeys)].Val().String(), sim.FxCoin(op.Amt)))
		case "convert":
			if op.What%2 == 0 {
				run(&erc20types.MsgConvertCoin{Coin: sdk.NewCoin(tok.Base, sdkmath.NewInt(op.Amt)), Receiver: u.Hex().String(), Sender: u.Acc().String()})
			} else {
				run(&erc20types.MsgConvertERC20{ContractAddress: tok.ERC20.String(), Amount: sdkmath.NewInt(op.Amt), Receiver: u.Acc().String(), Sender: u.Hex().String()})
			}
			labels["convert"] = true
		case "ethtx":
			// a signed EVM transaction for the next block: precompile calls and a plain token transfer
			var to common.Address
			var data []byte
			var value *big.Int
			switch op.What % 4 {
			case 0:
				to = sim.CrosschainAddr
				data, _ = crosschaintypes.GetABI().Pack("crossChain", usdt.ERC20, sim.ExtAddrN(ch, "dest", 3), big.NewInt(op.Amt), big.NewInt(1), fxtypes.MustStrToByte32(ch), "")
			case 1:
				to = sim.StakingAddr
				data, _ = stakingprecompile.GetABI().Pack("delegateV2", f.ValKeys[op.O%len(f.ValKeys)].Val().String(), sim.Fx(op.Amt).BigInt())
			case 2:
				to = usdt.ERC20
				data, _ = contract.GetFIP20().ABI.Pack("transfer", f.Users[(op.U+1)%len(f.Users)].Hex(), big.NewInt(op.Amt))
			default:
				to = sim.CrosschainAddr
				value = big.NewInt(op.Amt + 1)
				data, _ = crosschaintypes.GetABI().Pack("crossChain", common.Address{}, sim.ExtAddrN(chains[0], "dest", 4), big.NewInt(op.Amt), big.NewInt(1), fxtypes.MustStrToByte32(chains[0]), "")
			}
			if txb, err := f.SignEthTx(ctx(), u, &to, value, data, 3_000_000, seqDelta[u.Acc().String()]); err == nil {
				pendingTxs = append(pendingTxs, txb)
				seqDelta[u.Acc().String()]++
				labels["evm-tx-in-block"] = true
			}
		case "cosmostx":
			var m sdk.Msg = banktypes.NewMsgSend(u.Acc(), f.Users[(op.U+1)%len(f.Users)].Acc(), sdk.NewCoins(sim.FxCoin(op.Amt)))
			if op.What%2 == 1 {
				m = &crosschaintypes.MsgSendToExternal{ChainName: ch, Sender: u.Acc().String(), Dest: sim.ExtAddrN(ch, "dest", 5), Amount: sdk.NewCoin(tok.Base, sdkmath.NewInt(op.Amt)), BridgeFee: sdk.NewCoin(tok.Base, sdkmath.NewInt(2))}
			}
			if txb, err := f.SignTx(ctx(), sim.TxSpec{Msgs: []sdk.Msg{m}, Signers: []sim.Key{u}, Gas: 2_000_000, Fee: sim.DefaultFee(2_000_000), SeqDelta: map[string]uint64{u.Acc().String(): seqDelta[u.Acc().String()]}}); err == nil {
				pendingTxs = append(pendingTxs, txb)
				seqDelta[u.Acc().String()]++
				labels["cosmos-tx-in-block"] = true
			}
		case "valvote":
			if len(proposals) == 0 {
				break
			}
			id := proposals[op.What%len(proposals)]
			opt := []govv1.VoteOption{govv1.OptionYes, govv1.OptionYes, govv1.OptionNo, govv1.OptionNoWithVeto, govv1.OptionAbstain}[op.Amt%5]
			if run(govv1.NewMsgVote(f.ValKeys[op.O%len(f.ValKeys)].Acc(), id, opt, "")).OK() {
				labels["validator-vote"] = true
			}
		case "migrate":
			i := op.What % 3
			if migrated[i] {
				break
			}
			from, to := sim.CosmosKey("c07-legacy", i), sim.EthKey("c07-new", i)
			f.Mint(ctx(), from.Acc(), sim.FxCoin(1000))
			if acc := f.App.AccountKeeper.GetAccount(ctx(), from.Acc()); acc != nil && acc.GetPubKey() == nil {
				_ = acc.SetPubKey(from.Pub()) // as after the account's first transaction
				f.App.AccountKeeper.SetAccount(ctx(), acc)
			}
			run(stakingtypes.NewMsgDelegate(from.Acc().String(), f.ValKeys[op.O%len(f.ValKeys)].Val().String(), sim.FxCoin(100+op.Amt%50)))
			if op.Amt%2 == 0 {
				run(stakingtypes.NewMsgUndelegate(from.Acc().String(), f.ValKeys[op.O%len(f.ValKeys)].Val().String(), sim.FxCoin(10)))
			}
			ek := to.Priv.(*ethsecp256k1.PrivKey)
			ecdsaKey, _ := ek.ToECDSA()
			sig, _ := crypto.Sign(migratetypes.MigrateAccountSignatureHash(from.Acc(), to.Hex().Bytes()), ecdsaKey)
			if run(&migratetypes.MsgMigrateAccount{From: from.Acc().String(), To: to.Hex().String(), Signature: hex.EncodeToString(sig)}).OK() {
				migrated[i] = true
				labels["migrate"] = true
			}
		case "absent":
			if op.O%len(f.ValKeys) != 0 { // never the proposer
				f.Absent[op.O%len(f.ValKeys)] = op.What%2 == 0
			}
		}
	}
	// a few more blocks so that everything queued so far reaches its end blocker
	for i := 0; i < int(c.SignedWindow)+1; i++ {
		checkAged()
		if err := next(5 * time.Second); err != nil {
			return failf("C07/block-halts/"+panicSite(err.Error()), "closing block %d cannot be processed: %v\nhistory: %s", f.Height+1, trimErr(err), c07History(c.Ops))
		}
		blocks++
	}
	nontrivial := agedUnconfirmed || proposalEnded
	var ls []string
	for l := range labels {
		ls = append(ls, l)
	}
	sortStrings(ls)
	if tr != nil {
		tr.Labels = ls
	}
	if rec == nil {
		return nil
	}
	rec.Label("blocks", blocks)
	rec.Case(ev.Sig(c.NumOracles, c.NumChains, c.SignedWindow, c07History(c.Ops)), nontrivial, ls...)
	if nontrivial && rec.WantSample() {
		rec.Sample(c)
	}
	return nil
}

func durPtr(d time.Duration) *time.Duration { return &d }

func trimErr(err error) string {
	s := err.Error()
	if len(s) > 2500 {
		s = s[:2500] + "…"
	}
	return s
}

func c07History(ops []c07Op) string {
	s := ""
	for _, o := range ops {
		switch o.Kind {
		case "block":
			s += fmt.Sprintf("block(+%s) ", c07Dts[o.Dt%len(c07Dts)])
		case "confirm":
			s += fmt.Sprintf("confirm(o%d,%d) ", o.O, o.What)
		case "proposal":
			s += fmt.Sprintf("proposal(%d) ", o.What)
		default:
			s += o.Kind + " "
		}
	}
	return s
}

func init() { registerReplay("C07", runC07) }

func TestC07(t *testing.T) { drive(t, "C07", genC07, runC07) }

var _ = fxtypes.DefaultDenom

// c07Trace is what an observer sees of one execution of a history.
type c07Trace struct {
	Ops    []string        `json:"ops"`
	Blocks []c07BlockTrace `json:"blocks"`
	Labels []string        `json:"labels"`
}

type c07BlockTrace struct {
	Height    int64    `json:"height"`
	Err       string   `json:"err,omitempty"`
	AppHash   string   `json:"app_hash"`
	RespHash  string   `json:"response_hash"`
	TxResults []string `json:"tx_results"`
	Events    []string `json:"events"`
}

func eventStrings(evs []abci.Event) []string {
	out := make([]string, 0, len(evs))
	for _, e := range evs {
		var sb strings.Builder
		sb.WriteString(e.Type)
		for _, a := range e.Attributes {
			fmt.Fprintf(&sb, " %s=%s", a.Key, strconv.QuoteToASCII(a.Value)) // attribute values may be raw bytes
		}
		out = append(out, sb.String())
	}
	return out
}

func (t *c07Trace) note(s string) {
	if t != nil {
		t.Ops = append(t.Ops, s)
	}
}

func (t *c07Trace) msg(m sdk.Msg, r sim.Result) {
	if t == nil {
		return
	}
	line := sdk.MsgTypeURL(m)
	if r.Err != nil {
		line += " ERR " + strconv.QuoteToASCII(r.Err.Error())
	}
	if r.Panic != "" {
		line += " PANIC"
	}
	if r.Resp != nil {
		line += " | " + strings.Join(eventStrings(r.Resp.Events), " ; ") + fmt.Sprintf(" | data=%x", r.Resp.Data)
	}
	t.Ops = append(t.Ops, line)
}

func (t *c07Trace) eth(what string, r sim.EthTxResult) {
	if t == nil {
		return
	}
	line := what
	if r.Err != nil {
		line += " ERR " + r.Err.Error()
	}
	if r.Resp != nil {
		line += fmt.Sprintf(" hash=%s gas=%d vmerr=%q ret=%x logs=%d", r.Resp.Hash, r.Resp.GasUsed, r.Resp.VmError, r.Resp.Ret, len(r.Resp.Logs))
		for _, l := range r.Resp.Logs {
			line += fmt.Sprintf(" log[%s %v %x]", l.Address, l.Topics, l.Data)
		}
	}
	t.Ops = append(t.Ops, line)
}

func (t *c07Trace) block(f *sim.Fixture, res *abci.ResponseFinalizeBlock, err error) {
	if t == nil {
		return
	}
	b := c07BlockTrace{Height: f.Height}
	if err != nil {
		b.Err = panicSite(err.Error())
		t.Blocks = append(t.Blocks, b)
		return
	}
	b.AppHash = hex.EncodeToString(res.AppHash)
	if bz, merr := res.Marshal(); merr == nil {
		h := sha256.Sum256(bz)
		b.RespHash = hex.EncodeToString(h[:])
	}
	for _, tx := range res.TxResults {
		b.TxResults = append(b.TxResults, fmt.Sprintf("code=%d codespace=%s gas=%d/%d data=%x log=%s | %s", tx.Code, tx.Codespace, tx.GasUsed, tx.GasWanted, tx.Data, strconv.QuoteToASCII(tx.Log), strings.Join(eventStrings(tx.Events), " ; ")))
	}
	b.Events = eventStrings(res.Events)
	t.Blocks = append(t.Blocks, b)
}
