package props

import (
	"encoding/hex"
	"fmt"
	"math/big"
	"testing"

	sdkmath "cosmossdk.io/math"
	sdk "github.com/cosmos/cosmos-sdk/types"
	"pgregory.net/rapid"

	crosschaintypes "github.com/functionx/fx-core/v8/x/crosschain/types"

	"verif/harness/ev"
	"verif/harness/evmprog"
	"verif/harness/sim"
)

// C01 (parked claims run their effects at most once) under re-entrancy: an inbound bridge call whose
// target contract calls crosschain.executeClaim again — for the very claim being executed, directly or
// through a second contract, caught or propagated — or for another parked claim.
type c01rCase struct {
	Amt1, Amt2 int64
	Shape      string `json:"shape"` // direct | nested | other | twice
	Catch      bool   `json:"catch"`
	Epilogue   int    `json:"epilogue"`
}

func genC01R(t *rapid.T) c01rCase {
	return c01rCase{Amt1: rapid.Int64Range(1, 1000).Draw(t, "amt1"), Amt2: rapid.Int64Range(1, 1000).Draw(t, "amt2"),
		Shape: rapid.SampledFrom([]string{"direct", "nested", "other", "twice"}).Draw(t, "shape"), Catch: rapid.Bool().Draw(t, "catch"),
		Epilogue: rapid.SampledFrom([]int{0, 0, 0, 1}).Draw(t, "epi")}
}

func runC01R(c c01rCase, rec *ev.Recorder) *Failure {
	f := base()
	ctx, _ := f.Ctx.CacheContext()
	ch := "eth"
	k := f.Keeper(ch)
	// the bridged token originates on fxcore (externally-owned pair): deposits are paid out of the amount currently
	// out on the external chain, which bounds how often a claim's effects can possibly run (no unbounded recursion)
	usdt := f.Token("EXT")
	liquidity := 3*c.Amt1 + c.Amt2 + 5
	if r := f.RunMsg(ctx, &crosschaintypes.MsgSendToExternal{ChainName: ch, Sender: f.Users[0].Acc().String(), Dest: sim.ExtAddrN(ch, "c01-dest", 1), Amount: sdk.NewCoin("ext", sdkmath.NewInt(liquidity-1)), BridgeFee: sdk.NewCoin("ext", sdkmath.NewInt(1))}); !r.OK() {
		return failf("harness", "send: %v", r.Err)
	}
	ctx = ctx.WithBlockHeight(ctx.BlockHeight() + 1)
	if r := f.RunMsg(ctx, &crosschaintypes.MsgRequestBatch{ChainName: ch, Sender: f.Oracles[ch][0].Bridger.Acc().String(), Denom: usdt.Bridge[ch], MinimumFee: sdkmath.NewInt(1), FeeReceive: sim.ExtAddrN(ch, "feercv", 1), BaseFee: sdkmath.ZeroInt()}); !r.OK() {
		return failf("harness", "batch: %v", r.Err)
	}
	if _, err := f.Observe(ctx, ch, &crosschaintypes.MsgSendToExternalClaim{BatchNonce: 1, TokenContract: usdt.Contracts[ch]}, 4999); err != nil {
		return failf("harness", "observe batch executed: %v", err)
	}
	ra, rb := sim.HexAddrN("c01-contract", 1), sim.HexAddrN("c01-contract", 2)
	f.InstallRunner(ctx, ra)
	f.InstallRunner(ctx, rb)
	n1 := k.GetLastObservedEventNonce(ctx) + 1
	n2 := n1 + 1
	exec := func(n uint64) []byte {
		d, err := crosschaintypes.GetABI().Pack("executeClaim", ch, new(big.Int).SetUint64(n))
		if err != nil {
			panic(err)
		}
		return d
	}
	var script evmprog.Script
	switch c.Shape {
	case "direct":
		script = evmprog.Script{Epilogue: c.Epilogue, Calls: []evmprog.Call{{Target: sim.CrosschainAddr, Data: exec(n1), Catch: c.Catch, Note: "executeClaim(self)"}}}
	case "twice":
		script = evmprog.Script{Epilogue: c.Epilogue, Calls: []evmprog.Call{{Target: sim.CrosschainAddr, Data: exec(n1), Catch: true, Note: "executeClaim(self)"}, {Target: sim.CrosschainAddr, Data: exec(n1), Catch: c.Catch, Note: "executeClaim(self)"}}}
	case "nested":
		inner := evmprog.Script{Calls: []evmprog.Call{{Target: sim.CrosschainAddr, Data: exec(n1), Catch: c.Catch, Note: "executeClaim(self)"}}}
		script = evmprog.Script{Epilogue: c.Epilogue, Calls: []evmprog.Call{{Target: rb, Sub: &inner, Catch: c.Catch, Note: "via second contract"}}}
	case "other":
		script = evmprog.Script{Epilogue: c.Epilogue, Calls: []evmprog.Call{{Target: sim.CrosschainAddr, Data: exec(n2), Catch: c.Catch, Note: "executeClaim(other)"}}}
	}
	ext1, ext2 := sim.ExtAddrN(ch, "c01-sender", 1), sim.ExtAddrN(ch, "c01-sender", 2)
	mk := func(sender string, amt int64, to string, data []byte) *crosschaintypes.MsgBridgeCallClaim {
		return &crosschaintypes.MsgBridgeCallClaim{Sender: sender, Refund: sender, TokenContracts: []string{usdt.Contracts[ch]}, Amounts: []sdkmath.Int{sdkmath.NewInt(amt)},
			To: to, Data: hex.EncodeToString(data), Value: sdkmath.ZeroInt(), Memo: hex.EncodeToString(crosschaintypes.MemoSendCallTo.Bytes()), TxOrigin: sender}
	}
	toA := crosschaintypes.ExternalAddrToStr(ch, ra.Bytes())
	if _, err := f.Observe(ctx, ch, mk(ext1, c.Amt1, toA, script.Encode()), 5000); err != nil {
		return failf("harness", "observe 1: %v", err)
	}
	if _, err := f.Observe(ctx, ch, mk(ext2, c.Amt2, crosschaintypes.ExternalAddrToStr(ch, f.Users[2].Hex().Bytes()), nil), 5001); err != nil {
		return failf("harness", "observe 2: %v", err)
	}
	recv1 := crosschaintypes.ExternalAddrToHexAddr(ch, ext1)
	recv2 := crosschaintypes.ExternalAddrToHexAddr(ch, ext2)
	b1, b2 := f.BalanceOf(ctx, usdt.ERC20, recv1), f.BalanceOf(ctx, usdt.ERC20, recv2)
	supply := f.TotalSupply(ctx, usdt.ERC20)
	r := f.ExecuteClaim(ctx, f.Users[3], ch, n1)
	d1 := new(big.Int).Sub(f.BalanceOf(ctx, usdt.ERC20, recv1), b1)
	d2 := new(big.Int).Sub(f.BalanceOf(ctx, usdt.ERC20, recv2), b2)
	ds := new(big.Int).Sub(f.TotalSupply(ctx, usdt.ERC20), supply)
	_, p1 := k.GetPendingExecuteClaim(ctx, n1)
	_, p2 := k.GetPendingExecuteClaim(ctx, n2)
	desc := fmt.Sprintf("%+v tx-success=%v", c, r.Success())
	if d1.Cmp(big.NewInt(c.Amt1)) > 0 || d1.Sign() < 0 {
		return failf("C01/claim-effects-ran-twice", "%s: the receiver of parked claim %d was credited %s for a claim of %d", desc, n1, d1, c.Amt1)
	}
	if d2.Cmp(big.NewInt(c.Amt2)) > 0 || d2.Sign() < 0 {
		return failf("C01/claim-effects-ran-twice", "%s: the receiver of parked claim %d was credited %s for a claim of %d", desc, n2, d2, c.Amt2)
	}
	if !r.Success() {
		if d1.Sign() != 0 || d2.Sign() != 0 || !p1 || !p2 {
			return failf("C01/failed-exec-changed-state", "%s: failed execution credited %s / %s, pending %v / %v", desc, d1, d2, p1, p2)
		}
	} else {
		if p1 {
			return failf("C01/pending-after-execute", "%s: claim %d still pending after successful execution", desc, n1)
		}
		if (d2.Sign() != 0) == p2 {
			return failf("C01/pending-vs-effect", "%s: claim %d credited %s but pending=%v", desc, n2, d2, p2)
		}
	}
	if max := big.NewInt(c.Amt1 + c.Amt2); ds.Cmp(max) > 0 {
		return failf("C01/claim-effects-ran-twice", "%s: token supply grew by %s for claims worth %d", desc, ds, c.Amt1+c.Amt2)
	}
	rec.Case(ev.Sig("reenter", c.Shape, c.Catch, c.Epilogue, r.Success(), d1.Sign() != 0, d2.Sign() != 0), true, "reenter:"+c.Shape, fmt.Sprintf("reenter:tx-success=%v", r.Success()))
	if rec.WantSample() {
		rec.Sample(c)
	}
	return nil
}

func init() { registerReplay("C01R", runC01R) }

func TestC01Reenter(t *testing.T) {
	rapidDriveInto(t, "C01", "C01R", ev.Get("C01"), genC01R, runC01R)
}
