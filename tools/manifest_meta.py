HOOK_COMMITS = []
NOT_YET = {}
META = {
    "C16": dict(
        technique="property-based testing (rapid): enumerated message types x generated payloads x generated non-governance authorities, specification oracle + full store diff; compare-and-set model for UpdateStore",
        text="Exploration: for every authority-carrying message type found in the app's own registry (33 types, 8 chains), thousands of generated (payload, authority) cases are executed through the real message router; each must be rejected with the complete multi-store dump byte-identical, while the same payload under the governance authority is shown to apply (non-vacuity). A newly added handler is picked up by enumeration. Evidence of absence only over the generated cases.",
        note="Trusts baseapp's discard-on-error (reproduced by the harness), the SDK/ibc-go modules as linked, MemDB as store.",
    ),
    "C03": dict(
        technique="property-based testing (rapid): metamorphic relation (single-field mutation / re-split / swap => different ClaimHash) plus generated 3-oracle tallies on the real keeper",
        text="Exploration: generated valid claim pairs of all 6 claim types differing in one execution-relevant field, in how adjacent free-form fields are split, or in list order must hash differently; a quarter of the pairs are also voted on the real crosschain keeper (A,B,B) where nothing may be observed before two oracles agree and the applied claim must equal B field for field.",
        note="ValidateBasic defines the domain of valid claims; chain_name and bridger_address are per-voter and excluded.",
    ),
    "C20": dict(
        technique="property-based testing (rapid) with a protobuf wire-level mutator over reflection-filled and valid-by-construction messages (crash oracle), generated precompile call data through real EVM txs, and a specification oracle for the fee-bypass rule over generated node configurations; native go-fuzz targets in the thorough tier",
        text="Exploration: (A) tens of thousands of byte-level inputs per run reach TxDecoder, every registered message type's ValidateBasic and signer extraction, the ante handler, claim/confirm decoding, all 20 precompile methods and the target/address parsers; any panic (also one recovered as ErrPanic) is a violation. (B) thousands of CheckTx-mode ante executions on apps built with generated exempt-type lists and allowances are compared with an independent statement of the bypass rule at the +-1 boundaries of gas allowance and required fee.",
        note="MsgClaim cannot pass ValidateBasic after wire decoding on this snapshot (no UnpackInterfaces), so claims are additionally fed as Any bytes. The ante handler is invoked directly in CheckTx mode (baseapp's decode / validate-basic order is reproduced by the harness).",
    ),
    "C01": dict(
        technique="stateful property-based testing (rapid-generated operation histories as pure data) against the real crosschain keeper, precompile and end blocker; invariants over raw stores after every step plus a reference model of the per-oracle event-nonce cursor",
        text="Exploration: generated vote / execute / governance / bond / unbond / re-bond / end-block histories with competing claims per nonce; after every step: last observed nonce advances by at most one and only for the voted nonce, at most one observed attestation per nonce without gaps, no oracle vote accepted twice for a nonce or out of cursor order, rejected votes and failed executions leave the module store and balances unchanged, a parked claim executes at most once.",
        note="Claims are injected at the MsgClaim handler with unpacked claims; the EVM, staking and bank keepers are the real ones. Pruning (> 100 nonces) only in the thorough tier.",
    ),
    "C02": dict(
        technique="stateful property-based testing (rapid) with an independent quorum oracle: at the step an event becomes observed the harness recomputes the power of the distinct registered oracles whose votes for exactly that content it saw accepted, from the pre-step store",
        text="Exploration: oracle sets of 1..12 (20 thorough) members with generated stake distributions and delegate bounds; every observation must satisfy 100*S >= 66*recorded total with S over distinct registered voters of that very claim, recorded total power never below the online oracles' power, votes only from online registered oracles; a block-level sub-check delivers MsgClaim transactions whose wrapper and wrapped bridger differ and requires that no vote is recorded for an oracle whose bridger did not sign.",
        note="Same machine as C01. Power unit = 100 FX (sdk.DefaultPowerReduction in this app).",
    ),
    "C12": dict(
        technique="property-based differential testing (rapid): fxcore's checkpoint functions vs an independently written Solidity-ABI encoder over boundary-biased generated objects; stateful generated confirmation matrix (key x digest x bridger x address field x signature surgery) against a reference verifier",
        text="Exploration: thousands of generated oracle sets / batches / bridge calls over the full uint64 and uint256 ranges are hashed by fxcore (both ABI variants) and by the reference transcribed from FxBridgeLogic.sol; on the real keeper generated well-formed and transplanted / malformed confirmations must be accepted exactly when the reference verification says so and are stored at most once per object and oracle.",
        note="Contract side = transcription of the Solidity abi.encode argument lists (no compiler available); go-ethereum keccak/secp256k1 trusted.",
    ),
    "C04": dict(
        technique="stateful property-based testing (rapid-generated histories as pure data) with a conservation ledger kept by the harness from what it fed in, evaluated over bank, ERC-20 and crosschain stores after every step, plus exact per-account deltas per operation",
        text="Exploration: generated histories through all three doors (Cosmos messages, precompile calls, oracle claims) over FX, a module-owned multi-chain pair and an externally-owned pair on three chains; after every step held + in-flight + pending-inbound = initial + observed deposits - withdrawals observed as executed per token, and every tracked account's holdings move by exactly what the operation states.",
        note="The harness is the external chain (admissible events only). Also checked: per-chain backing of the multi-chain token and a final probe (every queued transfer cancelled, every holder sends all they hold, everything that left a home chain returns). One genuine defect of this snapshot (bridge-call refunds parking the bridge denomination in the erc20 conversion pool) is recorded in known_findings.json and excluded by construction (counted in the evidence).",
    ),
    "C05": dict(
        technique="model-based stateful property-based testing (rapid): reference model of pool / batches / outgoing calls compared with the decoded stores after every generated operation; releases are observed and validated rather than predicted",
        text="Exploration: each generated step's resulting pool, batches and bridge-call records must equal the model (every id in exactly one place, fields as supplied, ids increasing), settlements pay exactly amount+fee once to the creator, only the creator can cancel, cancelled or superseded batches return their transfers unchanged, and a call whose external execution was observed is never refunded.",
        note="Same machine as C04/C06. Refunds must come back in the form they were paid in (coins for a Cosmos message, ERC-20 for the precompile).",
    ),
    "C06": dict(
        technique="stateful property-based testing (rapid) with the harness acting as a model of the external bridge contract (height < timeout, increasing batch nonce); boundary heights timeout-1 / timeout / timeout+1 generated explicitly; invariant over the history",
        text="Exploration: generated creation / execution / timeout interleavings under generated timeout and block-time parameters and fxcore height jumps; a batch or call may disappear for timeout only in a step that observed an event whose height is >= its timeout, nothing can be batched or called out while no external height is observed (governance can wipe it), admissible executions are never rejected and an externally executed object is never refunded.",
        note="Same machine as C04/C05.",
    ),
    "C11": dict(
        technique="stateful property-based testing (rapid) of the staking precompile through real EVM transactions (EOAs and a hand-assembled interpreter contract), with exact per-transfer oracles and all registered crisis invariants evaluated after every step",
        text="Exploration: generated delegate / undelegate / redelegate / withdraw / approve / transfer / transferFrom histories (self-transfers, partial and off-by-one amounts) interleaved with real reward allocation and slashing; shares move exactly, validators are untouched by transfers, rewards are paid, delegations sum to validator shares, the SDK's staking / distribution / bank / gov invariants hold at every step and everybody can exit at the end.",
        note="Reward allocation and slashing are the SDK keepers' own functions called at message level. After every allocation the increase of pending rewards must be proportional to shares for all delegators of a validator.",
    ),
    "C07": dict(
        technique="stateful property-based testing (rapid-generated histories) on a fresh real chain per case with real FinalizeBlock/Commit per block step; crash oracle (error or panic of block processing)",
        text="Exploration: hundreds of generated histories of bridge traffic with per-oracle confirmation choices, governance proposals of ten shapes (including failing and panicking messages), oracle-list changes and large time jumps drive thousands of real blocks through every begin/end blocker; tiny governance-set signed windows make aged-unconfirmed oracle sets, batches and bridge calls reachable within a few blocks.",
        note="Probabilistic by nature: evidence reports how many blocks ran with aged unconfirmed objects of each kind and how many proposals ended in each status.",
    ),
    "C10": dict(
        technique="property-based testing (rapid) over (caller kind x EVM call kind x method x victim-aimed arguments x governance switch setting) through real EVM transactions and a hand-assembled interpreter contract; portfolio-monotonicity oracle for every non-caller account and a differential against a no-op transaction for calls that must fail",
        text="Exploration: each generated case performs one precompile call on a state where victims hold delegations, accrued rewards, queued withdrawals and allowances; no account other than the direct caller may lose any component of its portfolio (except the allowed shares in transferFromShares, with exact allowance bookkeeping), state-changing methods fail under STATICCALL / DELEGATECALL / CALLCODE and under a governance switch covering the address or method, leaving the state identical to a no-op transaction.",
        note="The direct caller is the EOA or the interpreter contract; tx.origin differs from it in the contract-via-victim cases. Allowances are compared with what the victim's last approval says (incl. revoked / lowered), not with the stored value.",
    ),
    "C09": dict(
        technique="property-based testing (rapid) over generated EVM call trees executed by a hand-assembled interpreter contract, with the gas limit enumerated as a fault point; metamorphic oracle: deleting every EVM-dropped sub-tree must not change the resulting multi-store dump or the logs",
        text="Fault enumeration: each generated tree (nested contracts, caught / propagated failures, reverting and invalid frames, all call kinds, all 12 state-changing precompile methods with valid and failing arguments) runs with ample gas and at a set of gas limits across 0..105 % of its gas use plus absolute boundary limits; failed transactions must equal a reverted no-op transaction, successful ones must equal the projection onto the frames the EVM kept - state, counters and logs.",
        note="Outcome bits come from the EVM's own CALL success flags as returned by the interpreter contract. A difference confined to the converted token's storage (nested-EVM overlap, same root cause as the C08 findings) is a recorded known finding; panics that abort the whole transaction are tolerated, their conversion into a revert with surviving writes is not.",
    ),
    "C08": dict(
        technique="stateful property-based testing (rapid) of conversion histories plus generated single-contract EVM programs (interpreter contract) mixing token calls with converting precompile calls; conservation invariants over bank supply, ERC-20 storage and the erc20 module's indexes after every step",
        text="Exploration: after every generated conversion / registration / toggle / alias step and after every generated EVM program, per pair: escrow equals ERC-20 total supply (module-owned, FX wrapper) or coin supply over all denominations (externally-owned), balances over the closed holder set equal total supply, the pair / denom / contract / alias indexes and bank metadata agree, and each conversion moves exactly its amount.",
        note="Known, unrepaired findings (nested EVM execution inside precompile conversions; alias removal with outstanding supply) are excluded by construction and counted.",
    ),
    "C13": dict(
        technique="model-based stateful property-based testing (rapid) of the oracle registry and stake custody through the real crosschain, staking and bank keepers (real staking end blocker for unbonding maturity, real validator slashing), with raw-store index bijection checks after every step",
        text="Exploration: generated oracle life cycles (bond, add-delegate, re-delegate, governance removal within and beyond the cap, slashing for missed oracle-set confirmations, unbonding period, withdrawal early / on time / twice) are compared with a reference model of the registry and of every oracle's stake; an oracle may go offline only for an object it left unconfirmed for the signed window since it joined.",
        note="Slashing decisions are checked for oracle sets (the object kind this machine creates); batches and bridge calls are covered by C07 for halting only.",
    ),
    "C14": dict(
        technique="property-based testing (rapid) over generated source portfolios, target kinds, governance involvement at every stage, signature variants and later activity; oracle = acceptance specification + portfolio union / emptiness / totals / crisis invariants on the real staking, distribution, bank and gov keepers",
        text="Exploration: each generated case builds a real portfolio (delegations, unbonding and redelegation entries that share completion slices with another delegator, accrued rewards), involves source or target in a proposal in its deposit / voting / ended stage, migrates with one of five signature shapes and then lets time pass through the real staking end blocker; acceptance must follow the stated conditions and an accepted migration must move everything once.",
        note="Public keys are set on accounts directly (as after a first transaction).",
    ),
    "C15": dict(
        technique="model-based stateful property-based testing (rapid) of the governance module through the real message router and the real gov end blocker, with a reference model of deposits / statuses / deadlines / votes and an independent exact-rational tally over the staking state",
        text="Exploration: generated histories of submit / deposit / vote / cancel / per-type parameter updates / deadline-aligned time steps over several concurrent proposals of different message types are compared step by step with a reference model: deposit books, activation minimum per type, voting period and quorum per type, refund-or-burn exactly once, all-or-nothing execution.",
        note="Expedited proposals are outside the generated domain.",
    ),
    "C17": dict(
        technique="differential property-based testing (rapid): each generated block history is executed on several fresh replicas, one of them in a re-executed child process with different runtime settings, and the per-block application hashes, FinalizeBlock responses, transaction results, event lists and per-operation outcomes are compared",
        text="Exploration: generated block histories over the crosschain, erc20, precompile, gov and migrate code paths with real FinalizeBlock + Commit; replicas must agree on every observable of every block.",
        note="Detection of a dependence on map order or time is probabilistic per replica; the evidence reports replicas, blocks and events compared.",
    ),
    "C18": dict(
        technique="fault-injection property-based testing (rapid): one generated fault point per case at a tolerated-failure boundary (event handler, inbound bridge call follow-up with hand-assembled callees and Runner scripts, passed proposal), checked by store-dump differentials and holdings / supply / storage equality on the real keepers",
        text="Exploration: generated fault points (which boundary, which token / message position, how the callee fails, at which gas limit, who is refunded) against the designated outcome of the failure: attestation bookkeeping only, refund record only, failed proposal only.",
        note="The IBC boundary is exercised by the C19 check.",
    ),
    "C19": dict(
        technique="model-based stateful property-based testing (rapid) of the IBC transfer stack (middleware over the transfer module) with real channel state on the sending side and an emulation of the IBC core's delivery rules, comparing tracked holdings, supplies, escrow and tracking records with a reference model after every step",
        text="Exploration: generated interleavings of inbound packets (denominations, receivers, amounts, memos), outbound transfers from Cosmos and from the EVM, acknowledgements, timeouts and replays on two channels; credit or refund exactly once, memo-call sender derivation, no effects behind an error acknowledgement.",
        note="Proof verification is outside the harness; ERC-20-started outbound transfers are refused on this snapshot (evidence counts them).",
    ),
}
