package props

import (
	"bytes"
	"encoding/hex"
	"fmt"
	"runtime/debug"
	"strings"
	"testing"
	"time"

	sdkmath "cosmossdk.io/math"
	abci "github.com/cometbft/cometbft/abci/types"
	sdk "github.com/cosmos/cosmos-sdk/types"
	authtypes "github.com/cosmos/cosmos-sdk/x/auth/types"
	govv1 "github.com/cosmos/cosmos-sdk/x/gov/types/v1"
	stakingtypes "github.com/cosmos/cosmos-sdk/x/staking/types"
	"github.com/ethereum/go-ethereum/common"
	"github.com/ethereum/go-ethereum/crypto"
	"github.com/evmos/ethermint/crypto/ethsecp256k1"
	"pgregory.net/rapid"

	fxtypes "github.com/functionx/fx-core/v8/types"
	migratetypes "github.com/functionx/fx-core/v8/x/migrate/types"

	"verif/harness/ev"
	"verif/harness/sim"
)

// ---------------------------------------------------------------------------------------------
// C14 — account migration moves everything, once, to the address that authorised it.
// ---------------------------------------------------------------------------------------------

type c14Case struct {
	Denoms      int     `json:"denoms"`              // number of denominations held by the source (0..4)
	Delegations []int64 `json:"delegations"`         // FX per validator index (0 = none)
	Unbondings  []int   `json:"unbondings"`          // validator index per unbonding entry
	Shared      []bool  `json:"shared"`              // another delegator undelegates at the same time (same completion slice)
	Redelegs    []int   `json:"redelegations"`       // source validator index per redelegation (dst = next)
	SameTime    []bool  `json:"unbonding_same_time"` // entry i starts in the same block as entry i-1 (same completion time)
	Rewards     bool    `json:"rewards"`
	Target      string  `json:"target"`      // fresh | balance | delegation | unbonding | operator | migrated
	SourceKind  string  `json:"source_kind"` // normal | nopubkey | ethkey | operator | migrated
	GovRole     string  `json:"gov_role"`    // none | proposer | depositor | voter
	GovWho      string  `json:"gov_who"`     // source | target
	GovStage    string  `json:"gov_stage"`   // deposit | voting | ended
	Sig         string  `json:"sig"`         // right | wrongkey | swapped | otherfrom | garbage
	After       []int   `json:"after_hours"` // time steps after the migration (hours)
	Second      string  `json:"second"`      // none | again | reverse | chain
}

func genC14(t *rapid.T) c14Case {
	c := c14Case{Denoms: rapid.IntRange(0, 4).Draw(t, "denoms"), Rewards: rapid.Bool().Draw(t, "rewards")}
	for i := 0; i < 3; i++ {
		c.Delegations = append(c.Delegations, rapid.SampledFrom([]int64{0, 500, 1234, 777}).Draw(t, "del"))
	}
	nu := rapid.IntRange(0, 3).Draw(t, "nunb")
	for i := 0; i < nu; i++ {
		c.Unbondings = append(c.Unbondings, rapid.IntRange(0, 2).Draw(t, "uv"))
		c.Shared = append(c.Shared, rapid.Bool().Draw(t, "shared"))
		c.SameTime = append(c.SameTime, rapid.Bool().Draw(t, "sameTime"))
	}
	nr := rapid.IntRange(0, 2).Draw(t, "nred")
	for i := 0; i < nr; i++ {
		c.Redelegs = append(c.Redelegs, rapid.IntRange(0, 2).Draw(t, "rv"))
	}
	c.Target = rapid.SampledFrom([]string{"fresh", "fresh", "fresh", "balance", "delegation", "unbonding", "operator", "migrated"}).Draw(t, "target")
	c.SourceKind = rapid.SampledFrom([]string{"normal", "normal", "normal", "normal", "nopubkey", "ethkey", "operator", "migrated"}).Draw(t, "source")
	c.GovRole = rapid.SampledFrom([]string{"none", "none", "proposer", "depositor", "voter"}).Draw(t, "govrole")
	c.GovWho = rapid.SampledFrom([]string{"source", "target"}).Draw(t, "govwho")
	c.GovStage = rapid.SampledFrom([]string{"deposit", "voting", "voting", "ended"}).Draw(t, "govstage")
	c.Sig = rapid.SampledFrom([]string{"right", "right", "right", "right", "wrongkey", "swapped", "otherfrom", "garbage"}).Draw(t, "sig")
	na := rapid.IntRange(0, 4).Draw(t, "nafter")
	for i := 0; i < na; i++ {
		c.After = append(c.After, rapid.SampledFrom([]int{1, 24, 300, 504, 505, 600}).Draw(t, "h"))
	}
	c.Second = rapid.SampledFrom([]string{"none", "again", "reverse", "chain"}).Draw(t, "second")
	return c
}

type c14Portfolio struct {
	Bank   sdk.Coins
	Shares map[string]sdkmath.LegacyDec
	UBD    map[string][]string // validator -> entries "completion/balance"
	RED    map[string][]string // src>dst -> entries
	Reward map[string]sdkmath.Int
}

func c14Snapshot(f *sim.Fixture, e *c11Env, ctx sdk.Context, who sdk.AccAddress) c14Portfolio {
	p := c14Portfolio{Bank: f.App.BankKeeper.GetAllBalances(ctx, who), Shares: map[string]sdkmath.LegacyDec{}, UBD: map[string][]string{}, RED: map[string][]string{}, Reward: map[string]sdkmath.Int{}}
	dels, _ := f.App.StakingKeeper.GetDelegatorDelegations(ctx, who, 100)
	for _, d := range dels {
		p.Shares[d.ValidatorAddress] = d.Shares
		v, _ := sdk.ValAddressFromBech32(d.ValidatorAddress)
		p.Reward[d.ValidatorAddress] = e.pending(ctx, common.BytesToAddress(who), v)
	}
	ubds, _ := f.App.StakingKeeper.GetUnbondingDelegations(ctx, who, 100)
	for _, u := range ubds {
		for _, en := range u.Entries {
			p.UBD[u.ValidatorAddress] = append(p.UBD[u.ValidatorAddress], fmt.Sprintf("%d/%s", en.CompletionTime.Unix(), en.Balance))
		}
	}
	reds, _ := f.App.StakingKeeper.GetRedelegations(ctx, who, 100)
	for _, r := range reds {
		for _, en := range r.Entries {
			k := r.ValidatorSrcAddress + ">" + r.ValidatorDstAddress
			p.RED[k] = append(p.RED[k], fmt.Sprintf("%d/%s", en.CompletionTime.Unix(), en.SharesDst))
		}
	}
	return p
}

func (p c14Portfolio) String() string {
	return fmt.Sprintf("bank=%s shares=%v ubd=%v red=%v rewards=%v", p.Bank, p.Shares, p.UBD, p.RED, p.Reward)
}

func (p c14Portfolio) empty() bool {
	return p.Bank.IsZero() && len(p.Shares) == 0 && len(p.UBD) == 0 && len(p.RED) == 0
}

// merge = multiset union of two portfolios (rewards compared with a tolerance of a few base units elsewhere).
func c14Merge(a, b c14Portfolio) c14Portfolio {
	m := c14Portfolio{Bank: a.Bank.Add(b.Bank...), Shares: map[string]sdkmath.LegacyDec{}, UBD: map[string][]string{}, RED: map[string][]string{}, Reward: map[string]sdkmath.Int{}}
	for _, x := range []c14Portfolio{a, b} {
		for k, v := range x.Shares {
			if cur, ok := m.Shares[k]; ok {
				m.Shares[k] = cur.Add(v)
			} else {
				m.Shares[k] = v
			}
		}
		for k, v := range x.UBD {
			m.UBD[k] = append(m.UBD[k], v...)
		}
		for k, v := range x.RED {
			m.RED[k] = append(m.RED[k], v...)
		}
		for k, v := range x.Reward {
			if cur, ok := m.Reward[k]; ok {
				m.Reward[k] = cur.Add(v)
			} else {
				m.Reward[k] = v
			}
		}
	}
	return m
}

func c14Equal(a, b c14Portfolio) string {
	if !a.Bank.Equal(b.Bank) {
		return fmt.Sprintf("bank %s vs %s", a.Bank, b.Bank)
	}
	if len(a.Shares) != len(b.Shares) {
		return fmt.Sprintf("delegations %v vs %v", a.Shares, b.Shares)
	}
	for k, v := range a.Shares {
		if w, ok := b.Shares[k]; !ok || !w.Equal(v) {
			return fmt.Sprintf("shares@%s %s vs %v", k, v, w)
		}
	}
	cmp := func(x, y map[string][]string, what string) string {
		if len(x) != len(y) {
			return fmt.Sprintf("%s %v vs %v", what, x, y)
		}
		for k, v := range x {
			w := append([]string{}, y[k]...)
			vv := append([]string{}, v...)
			sortStrings(w)
			sortStrings(vv)
			if strings.Join(vv, ",") != strings.Join(w, ",") {
				return fmt.Sprintf("%s@%s %v vs %v", what, k, vv, w)
			}
		}
		return ""
	}
	if d := cmp(a.UBD, b.UBD, "unbonding"); d != "" {
		return d
	}
	if d := cmp(a.RED, b.RED, "redelegation"); d != "" {
		return d
	}
	for k, v := range a.Reward {
		w, ok := b.Reward[k]
		if !ok || v.Sub(w).Abs().GT(sdkmath.NewInt(2)) {
			return fmt.Sprintf("pending rewards@%s %s vs %v", k, v, w)
		}
	}
	return ""
}

func c14Totals(f *sim.Fixture, ctx sdk.Context) string {
	s := f.App.BankKeeper.GetSupply(ctx, fxtypes.DefaultDenom).String()
	vals, _ := f.App.StakingKeeper.GetAllValidators(ctx)
	for _, v := range vals {
		s += fmt.Sprintf(" %s:%s/%s", v.OperatorAddress[len(v.OperatorAddress)-5:], v.Tokens, v.DelegatorShares)
	}
	s += " bonded=" + f.App.BankKeeper.GetBalance(ctx, authtypes.NewModuleAddress(stakingtypes.BondedPoolName), fxtypes.DefaultDenom).String()
	s += " notbonded=" + f.App.BankKeeper.GetBalance(ctx, authtypes.NewModuleAddress(stakingtypes.NotBondedPoolName), fxtypes.DefaultDenom).String()
	return s
}

func runC14(c c14Case, rec *ev.Recorder) *Failure {
	f := base()
	ctx, _ := f.Ctx.CacheContext()
	e := &c11Env{f: f}
	vals := []sdk.ValAddress{f.ValKeys[0].Val(), f.ValKeys[1].Val(), f.ValKeys[2].Val()}
	src := sim.CosmosKey("c14-src", 1)
	dst := sim.EthKey("c14-dst", 1)
	other := sim.CosmosKey("c14-other", 1) // another delegator sharing completion times
	f.Mint(ctx, other.Acc(), sim.FxCoin(100_000))
	switch c.SourceKind {
	case "ethkey":
		src = sim.EthKey("c14-src-eth", 1)
	case "operator":
		src = f.ValKeys[1]
	}
	srcAcc := src.Acc()
	dstHex := dst.Hex()
	if c.Target == "operator" {
		dstHex = common.BytesToAddress(f.ValKeys[2].Acc())
	}
	dstAcc := sdk.AccAddress(dstHex.Bytes())
	// --- source portfolio
	f.Mint(ctx, srcAcc, sim.FxCoin(50_000))
	denoms := []string{"usdt", "ext", f.Token("USDT").Bridge["eth"], "zzz"}
	for i := 0; i < c.Denoms && i < len(denoms); i++ {
		f.Mint(ctx, srcAcc, sdk.NewCoin(denoms[i], sdkmath.NewInt(int64(1000+i))))
	}
	acc := f.App.AccountKeeper.GetAccount(ctx, srcAcc)
	if acc == nil {
		acc = f.App.AccountKeeper.NewAccountWithAddress(ctx, srcAcc)
	}
	if c.SourceKind != "nopubkey" {
		_ = acc.SetPubKey(src.Pub())
	}
	f.App.AccountKeeper.SetAccount(ctx, acc)
	run := func(m sdk.Msg) bool { return f.RunMsg(ctx, m).OK() }
	for i, d := range c.Delegations {
		if d > 0 {
			run(stakingtypes.NewMsgDelegate(srcAcc.String(), vals[i].String(), sim.FxCoin(d)))
			run(stakingtypes.NewMsgDelegate(other.Acc().String(), vals[i].String(), sim.FxCoin(100)))
		}
	}
	hasStaking := false
	for i, vi := range c.Unbondings {
		if i == 0 || i >= len(c.SameTime) || !c.SameTime[i] {
			ctx = ctx.WithBlockHeight(ctx.BlockHeight() + 1).WithBlockTime(ctx.BlockTime().Add(time.Duration(i+1) * time.Hour))
		}
		if run(stakingtypes.NewMsgUndelegate(srcAcc.String(), vals[vi].String(), sim.FxCoin(int64(10+i)))) {
			hasStaking = true
		}
		if c.Shared[i] {
			run(stakingtypes.NewMsgUndelegate(other.Acc().String(), vals[vi].String(), sim.FxCoin(1)))
		}
	}
	for i, vi := range c.Redelegs {
		if run(stakingtypes.NewMsgBeginRedelegate(srcAcc.String(), vals[vi].String(), vals[(vi+1)%3].String(), sim.FxCoin(int64(20+i)))) {
			hasStaking = true
			run(stakingtypes.NewMsgBeginRedelegate(other.Acc().String(), vals[vi].String(), vals[(vi+1)%3].String(), sim.FxCoin(1)))
		}
	}
	if c.Rewards {
		_ = f.App.BankKeeper.MintCoins(ctx, "mint", sdk.NewCoins(sim.FxCoin(300)))
		_ = f.App.BankKeeper.SendCoinsFromModuleToModule(ctx, "mint", authtypes.FeeCollectorName, sdk.NewCoins(sim.FxCoin(300)))
		var votes []abci.VoteInfo
		total := int64(0)
		for i := range f.Cons {
			if v, err := f.App.StakingKeeper.GetValidatorByConsAddr(ctx, sdk.ConsAddress(f.Cons[i].PubKey().Address())); err == nil {
				p := v.ConsensusPower(sdk.DefaultPowerReduction)
				total += p
				votes = append(votes, abci.VoteInfo{Validator: abci.Validator{Address: f.Cons[i].PubKey().Address(), Power: p}})
			}
		}
		ctx = ctx.WithBlockHeight(ctx.BlockHeight() + 1)
		_ = f.App.DistrKeeper.AllocateTokens(ctx, total, votes)
	}
	// --- target
	f.Mint(ctx, f.Users[3].Acc(), sim.FxCoin(1))
	switch c.Target {
	case "balance":
		f.Mint(ctx, dstAcc, sim.FxCoin(77), sdk.NewCoin("usdt", sdkmath.NewInt(5)))
	case "delegation":
		f.Mint(ctx, dstAcc, sim.FxCoin(500))
		run(stakingtypes.NewMsgDelegate(dstAcc.String(), vals[0].String(), sim.FxCoin(100)))
	case "unbonding":
		f.Mint(ctx, dstAcc, sim.FxCoin(500))
		run(stakingtypes.NewMsgDelegate(dstAcc.String(), vals[0].String(), sim.FxCoin(100)))
		run(stakingtypes.NewMsgUndelegate(dstAcc.String(), vals[0].String(), sim.FxCoin(100)))
	}
	sign := func(from sdk.AccAddress, to common.Address, k sim.Key) string {
		ek, ok := k.Priv.(*ethsecp256k1.PrivKey)
		if !ok {
			return "00"
		}
		ecdsaKey, _ := ek.ToECDSA()
		sig, err := crypto.Sign(migratetypes.MigrateAccountSignatureHash(from, to.Bytes()), ecdsaKey)
		if err != nil {
			return "00"
		}
		return hex.EncodeToString(sig)
	}
	migrated := map[string]bool{}
	if c.SourceKind == "migrated" || c.Target == "migrated" {
		// an earlier, unrelated migration uses up the address
		o1, o2 := sim.CosmosKey("c14-old", 1), sim.EthKey("c14-old", 2)
		from, to := o1.Acc(), o2.Hex()
		toKey := o2
		if c.SourceKind == "migrated" {
			// the source has already been the TARGET of a migration is impossible (cosmos key); make it the source of one
			from = srcAcc
		} else {
			to, toKey = dstHex, dst
		}
		f.Mint(ctx, from, sim.FxCoin(1))
		a := f.App.AccountKeeper.GetAccount(ctx, from)
		if a.GetPubKey() == nil {
			pk := o1.Pub()
			if c.SourceKind == "migrated" {
				pk = src.Pub()
			}
			_ = a.SetPubKey(pk)
			f.App.AccountKeeper.SetAccount(ctx, a)
		}
		if run(&migratetypes.MsgMigrateAccount{From: from.String(), To: to.String(), Signature: sign(from, to, toKey)}) {
			migrated[from.String()], migrated[to.String()] = true, true
		}
	}
	// --- governance involvement
	govOpen := false
	if c.GovRole != "none" {
		who := srcAcc
		if c.GovWho == "target" {
			who = dstAcc
		}
		f.Mint(ctx, who, sim.FxCoin(30_000))
		proposer := f.Users[2].Acc()
		dep := sim.FxCoin(10_000)
		if c.GovStage == "deposit" {
			dep = sim.FxCoin(10)
		}
		if c.GovRole == "proposer" {
			proposer = who
		}
		m, _ := govv1.NewMsgSubmitProposal(nil, sdk.NewCoins(dep), proposer.String(), "meta", "title", "summary", false)
		if run(m) {
			id, _ := f.App.GovKeeper.ProposalID.Peek(ctx)
			id--
			involved := c.GovRole == "proposer"
			if c.GovRole == "depositor" && run(govv1.NewMsgDeposit(who, id, sdk.NewCoins(sim.FxCoin(5)))) {
				involved = true
			}
			if c.GovRole == "voter" && c.GovStage != "deposit" && run(govv1.NewMsgVote(who, id, govv1.OptionYes, "")) {
				involved = true
			}
			if c.GovStage == "ended" {
				// the proposal's period passes and the real gov end blocker closes it
				ctx = ctx.WithBlockHeight(ctx.BlockHeight() + 1).WithBlockTime(ctx.BlockTime().Add(15 * 24 * time.Hour))
				if err := f.EndBlock(ctx); err != nil {
					return failf("harness", "end block: %v", err)
				}
			} else if involved {
				govOpen = true
			}
		}
	}
	// --- the migration
	msg := &migratetypes.MsgMigrateAccount{From: srcAcc.String(), To: dstHex.String()}
	switch c.Sig {
	case "right":
		msg.Signature = sign(srcAcc, dstHex, dst)
	case "wrongkey":
		msg.Signature = sign(srcAcc, dstHex, sim.EthKey("c14-stranger", 1))
	case "swapped":
		ek, _ := dst.Priv.(*ethsecp256k1.PrivKey).ToECDSA()
		sig, _ := crypto.Sign(migratetypes.MigrateAccountSignatureHash(dstHex.Bytes(), srcAcc), ek)
		msg.Signature = hex.EncodeToString(sig)
	case "otherfrom":
		msg.Signature = sign(other.Acc(), dstHex, dst)
	default:
		msg.Signature = "abcd"
	}
	srcBefore, dstBefore := c14Snapshot(f, e, ctx, srcAcc), c14Snapshot(f, e, ctx, dstAcc)
	totalsBefore := c14Totals(f, ctx)
	targetHasStaking := len(dstBefore.Shares)+len(dstBefore.UBD)+len(dstBefore.RED) > 0
	r := f.RunMsg(ctx, msg)
	if r.Panic != "" {
		return failf("C14/panic", "%+v: %s", c, trimStack(r.Panic))
	}
	sigOK := c.Sig == "right" && c.Target != "operator" // for the operator target the harness holds no key
	expect := sigOK && !migrated[srcAcc.String()] && !migrated[dstHex.String()] && c.SourceKind != "nopubkey" && c.SourceKind != "ethkey" && c.SourceKind != "operator" &&
		c.Target != "operator" && !targetHasStaking && !govOpen
	desc := fmt.Sprintf("%+v (accepted=%v err=%v)", c, r.OK(), r.Err)
	if r.OK() && !expect {
		why := []string{}
		if !sigOK {
			why = append(why, "signature not by the target over (source, target)")
		}
		if migrated[srcAcc.String()] || migrated[dstHex.String()] {
			why = append(why, "an address was already used in a migration")
		}
		if targetHasStaking {
			why = append(why, "target has staking records")
		}
		if govOpen {
			why = append(why, fmt.Sprintf("%s is %s of a proposal still in its %s period", c.GovWho, c.GovRole, c.GovStage))
		}
		if c.SourceKind != "normal" && c.SourceKind != "migrated" {
			why = append(why, "source kind "+c.SourceKind)
		}
		sig := "C14/accepted-invalid"
		if govOpen && len(why) == 1 {
			sig = "C14/accepted-with-open-proposal/" + c.GovRole + "/" + c.GovStage
		}
		return failf(sig, "%s: migration accepted although %s", desc, strings.Join(why, "; "))
	}
	if !r.OK() && expect {
		return failf("C14/rejected-valid", "%s: a migration that satisfies every stated condition was refused", desc)
	}
	if !r.OK() {
		if d := c14Equal(c14Snapshot(f, e, ctx, srcAcc), srcBefore); d != "" {
			return failf("C14/rejected-but-changed", "%s: source changed: %s", desc, d)
		}
		rec.Case(ev.Sig("rej", c.Target, c.SourceKind, c.GovRole, c.GovStage, c.Sig), c.GovRole != "none" || hasStaking, "rejected")
		return nil
	}
	// accepted
	// reading the two accounts after an accepted migration (balances, delegations, pending rewards,
	// unbondings, votes ...) uses the ordinary queries: a query that panics now is a broken record
	var srcAfter, dstAfter c14Portfolio
	if pf := func() (pf *Failure) {
		defer func() {
			if r := recover(); r != nil {
				pf = failf("C14/query-panics-after-migration", "%s: reading the migrated accounts panics: %v\n%s", desc, r, trimStack(string(debug.Stack())))
			}
		}()
		srcAfter, dstAfter = c14Snapshot(f, e, ctx, srcAcc), c14Snapshot(f, e, ctx, dstAcc)
		return nil
	}(); pf != nil {
		return pf
	}
	if !srcAfter.empty() {
		return failf("C14/source-not-empty", "%s: the source still holds %s", desc, srcAfter)
	}
	if d := c14Equal(dstAfter, c14Merge(srcBefore, dstBefore)); d != "" {
		return failf("C14/target-not-union", "%s: target after != source before + target before: %s", desc, d)
	}
	if t := c14Totals(f, ctx); t != totalsBefore {
		return failf("C14/totals-changed", "%s: totals %s -> %s", desc, totalsBefore, t)
	}
	// no trace of the source in the maturation queues
	it, _ := f.App.StakingKeeper.UBDQueueIterator(ctx, time.Unix(1<<40, 0))
	for ; it.Valid(); it.Next() {
		if strings.Contains(string(it.Value()), srcAcc.String()) {
			it.Close()
			return failf("C14/source-left-in-unbonding-queue", "%s: the unbonding queue still names the source", desc)
		}
	}
	it.Close()
	it2, _ := f.App.StakingKeeper.RedelegationQueueIterator(ctx, time.Unix(1<<40, 0))
	for ; it2.Valid(); it2.Next() {
		if strings.Contains(string(it2.Value()), srcAcc.String()) {
			it2.Close()
			return failf("C14/source-left-in-redelegation-queue", "%s: the redelegation queue still names the source", desc)
		}
	}
	it2.Close()
	// no key or value of the staking / distribution stores refers to the source any more
	for _, store := range []string{stakingtypes.StoreKey, "distribution"} {
		sit := ctx.KVStore(f.App.GetKey(store)).Iterator(nil, nil)
		for ; sit.Valid(); sit.Next() {
			if bytes.Contains(sit.Key(), srcAcc.Bytes()) || bytes.Contains(sit.Value(), []byte(srcAcc.String())) {
				k := fmt.Sprintf("%x", sit.Key())
				sit.Close()
				return failf(fmt.Sprintf("C14/source-left-in-store/%s/prefix-%s", store, k[:2]), "%s: the %s store still refers to the source under key %s", desc, store, k)
			}
		}
		sit.Close()
	}
	inv := &c11Env{f: f}
	if fl := inv.invariants(ctx, desc); fl != nil {
		fl.Sig = strings.Replace(fl.Sig, "C11/", "C14/", 1)
		return fl
	}
	// later activity: time passes, matured funds reach the target
	for _, h := range c.After {
		balDst := f.App.BankKeeper.GetBalance(ctx, dstAcc, fxtypes.DefaultDenom).Amount
		balSrc := f.App.BankKeeper.GetBalance(ctx, srcAcc, fxtypes.DefaultDenom).Amount
		now := ctx.BlockTime().Add(time.Duration(h) * time.Hour)
		maturing := sdkmath.ZeroInt()
		ubds, _ := f.App.StakingKeeper.GetUnbondingDelegations(ctx, dstAcc, 100)
		for _, u := range ubds {
			for _, en := range u.Entries {
				if !en.CompletionTime.After(now) {
					maturing = maturing.Add(en.Balance)
				}
			}
		}
		ctx = ctx.WithBlockHeight(ctx.BlockHeight() + 1).WithBlockTime(now)
		if _, err := f.App.StakingKeeper.BlockValidatorUpdates(ctx); err != nil {
			return failf("C14/staking-endblock-error", "%s: staking end block after the migration: %v", desc, err)
		}
		gotDst := f.App.BankKeeper.GetBalance(ctx, dstAcc, fxtypes.DefaultDenom).Amount.Sub(balDst)
		gotSrc := f.App.BankKeeper.GetBalance(ctx, srcAcc, fxtypes.DefaultDenom).Amount.Sub(balSrc)
		if !gotDst.Equal(maturing) || !gotSrc.IsZero() {
			return failf("C14/matured-funds", "%s: %s FX matured after +%dh: the target received %s, the source %s", desc, maturing, h, gotDst, gotSrc)
		}
	}
	// the target can withdraw and undelegate what it inherited
	dels, _ := f.App.StakingKeeper.GetDelegatorDelegations(ctx, dstAcc, 100)
	for _, d := range dels {
		if !f.RunMsg(ctx, &stakingtypes.MsgUndelegate{DelegatorAddress: dstAcc.String(), ValidatorAddress: d.ValidatorAddress, Amount: sim.FxCoin(1)}).OK() {
			if has, _ := f.App.StakingKeeper.HasMaxUnbondingDelegationEntries(ctx, dstAcc, mustVal(d.ValidatorAddress)); !has {
				return failf("C14/target-cannot-undelegate", "%s: the target cannot undelegate from %s", desc, d.ValidatorAddress)
			}
		}
	}
	if fl := inv.invariants(ctx, desc+" (after later activity)"); fl != nil {
		fl.Sig = strings.Replace(fl.Sig, "C11/", "C14/", 1)
		return fl
	}
	// a second migration involving either address fails
	if c.Second != "none" {
		s2, d2 := srcAcc, sim.EthKey("c14-dst", 2)
		var m2 *migratetypes.MsgMigrateAccount
		switch c.Second {
		case "again":
			m2 = &migratetypes.MsgMigrateAccount{From: s2.String(), To: d2.Hex().String(), Signature: sign(s2, d2.Hex(), d2)}
		case "reverse", "chain":
			n := sim.CosmosKey("c14-src", 2)
			f.Mint(ctx, n.Acc(), sim.FxCoin(5))
			a := f.App.AccountKeeper.GetAccount(ctx, n.Acc())
			_ = a.SetPubKey(n.Pub())
			f.App.AccountKeeper.SetAccount(ctx, a)
			m2 = &migratetypes.MsgMigrateAccount{From: n.Acc().String(), To: dstHex.String(), Signature: sign(n.Acc(), dstHex, dst)}
		}
		if f.RunMsg(ctx, m2).OK() {
			return failf("C14/second-migration-accepted/"+c.Second, "%s: a second migration (%s) involving an already used address was accepted", desc, c.Second)
		}
	}
	nontrivial := len(srcBefore.UBD)+len(srcBefore.RED) > 0 || c.GovRole != "none"
	rec.Case(ev.Sig("acc", c.Denoms, len(srcBefore.Shares), len(srcBefore.UBD), len(srcBefore.RED), c.Rewards, c.Target, c.GovRole, c.GovStage, len(c.After), c.Second), nontrivial, "accepted", fmt.Sprintf("ubd:%d", len(srcBefore.UBD)), fmt.Sprintf("red:%d", len(srcBefore.RED)), "gov:"+c.GovRole+"/"+c.GovStage)
	if nontrivial && rec.WantSample() {
		rec.Sample(c)
	}
	return nil
}

func mustVal(s string) sdk.ValAddress {
	v, err := sdk.ValAddressFromBech32(s)
	if err != nil {
		panic(err)
	}
	return v
}

func init() { registerReplay("C14", runC14) }

func TestC14(t *testing.T) { drive(t, "C14", genC14, runC14) }
