#!/usr/bin/env python3
"""usage: mkmut.py <name> <file> <<< 'OLD\n=====\nNEW'   -- makes mutants/<name>.diff from one textual replacement in /repo/<file>, checks the package builds, reverts."""
import subprocess, sys, os
name, path = sys.argv[1], sys.argv[2]
p = os.path.join("/repo", path)
s = open(p).read()
for block in sys.stdin.read().split("\n#####\n"):
    old, new = block.split("\n=====\n")
    old = old.strip("\n"); new = new.strip("\n")
    if s.count(old) != 1:
        sys.exit(f"{name}: OLD occurs {s.count(old)} times in {path}: {old[:60]}")
    s = s.replace(old, new)
open(p, "w").write(s)
env = dict(os.environ, GOFLAGS="-mod=mod", GOPROXY="off", GOSUMDB="off", GOTOOLCHAIN="local")
r = subprocess.run(["go", "build", "./" + os.path.dirname(path)], cwd="/repo", env=env, capture_output=True, text=True)
d = subprocess.run(["git", "-C", "/repo", "diff", "--", path], capture_output=True, text=True).stdout
subprocess.run(["git", "-C", "/repo", "checkout", "--", "."])
if r.returncode != 0:
    sys.exit(f"{name}: does not build:\n{r.stderr[-1500:]}")
open(f"/verif/mutants/{name}.diff", "w").write(d)
print(f"{name}: ok ({len(d.splitlines())} diff lines)")
