package props

import (
	"math/big"
	"sync"

	sdkmath "cosmossdk.io/math"
	sdk "github.com/cosmos/cosmos-sdk/types"
	distrtypes "github.com/cosmos/cosmos-sdk/x/distribution/types"
	"github.com/ethereum/go-ethereum/common"

	"github.com/functionx/fx-core/v8/contract"
	crosschaintypes "github.com/functionx/fx-core/v8/x/crosschain/types"
	erc20types "github.com/functionx/fx-core/v8/x/erc20/types"

	"verif/harness/sim"
)

// base is a per-process deterministic fixture chain. Properties at message level never write to
// it: every case works on base.Ctx.CacheContext().
var (
	baseOnce sync.Once
	baseFx   *sim.Fixture
	// an FIP20 deployed by user 1 that is NOT registered as a token pair (for MsgRegisterERC20)
	baseUnregistered common.Address
)

var baseChains = []string{"eth", "bsc", "tron"}

func base() *sim.Fixture {
	baseOnce.Do(func() {
		f := sim.NewFixture(sim.FixtureOptions{Chains: baseChains, Tokens: true, NumUsers: 4, OraclesPerChain: 3})
		ctx := f.Ctx
		// community pool funds (for MsgCommunityPoolSpend)
		if err := f.App.DistrKeeper.FundCommunityPool(ctx, sdk.NewCoins(sim.FxCoin(50_000)), f.Users[3].Acc()); err != nil {
			panic(err)
		}
		_ = distrtypes.ModuleName
		addr, err := f.App.Erc20Keeper.DeployUpgradableToken(ctx, f.Users[1].Hex(), "Second Token", "SEC", 18)
		if err != nil {
			panic(err)
		}
		baseUnregistered = addr
		// initial holdings: users own some of every token
		ext := f.Token("EXT")
		for i, u := range f.Users {
			f.MintERC20(ctx, ext, u.Hex(), new(big.Int).Mul(big.NewInt(1000+int64(i)), big.NewInt(1e6)))
		}
		usdt := f.Token("USDT")
		for i, u := range f.Users {
			for _, ch := range f.Chains {
				claim := &crosschaintypes.MsgSendToFxClaim{
					TokenContract: usdt.Contracts[ch],
					Amount:        sdkmath.NewInt(int64(500+i) * 1e6),
					Sender:        sim.ExtAddrN(ch, "depositor", i),
					Receiver:      u.Acc().String(),
					TargetIbc:     "",
				}
				nonce, err := f.Observe(ctx, ch, claim, 200+uint64(i))
				if err != nil {
					panic(err)
				}
				if r := f.ExecuteClaim(ctx, f.Users[0], ch, nonce); !r.Success() {
					panic(r)
				}
			}
		}
		// every user holds every token in both forms and has approved the crosschain precompile
		maxU := new(big.Int).Lsh(big.NewInt(1), 200)
		for _, u := range f.Users {
			must := func(what string, ok bool) {
				if !ok {
					panic("base fixture: " + what)
				}
			}
			must("convert usdt", f.RunMsg(ctx, &erc20types.MsgConvertCoin{Coin: sdk.NewCoin("usdt", sdkmath.NewInt(600e6)), Receiver: u.Hex().String(), Sender: u.Acc().String()}).OK())
			must("convert ext", f.RunMsg(ctx, &erc20types.MsgConvertERC20{ContractAddress: ext.ERC20.String(), Amount: sdkmath.NewInt(400e6), Receiver: u.Acc().String(), Sender: u.Hex().String()}).OK())
			must("wrap fx", f.RunMsg(ctx, &erc20types.MsgConvertCoin{Coin: sim.FxCoin(1000), Receiver: u.Hex().String(), Sender: u.Acc().String()}).OK())
			for _, tk := range f.Tokens {
				data, err := contract.GetFIP20().ABI.Pack("approve", sim.CrosschainAddr, maxU)
				if err != nil {
					panic(err)
				}
				must("approve "+tk.Name, f.EthTx(ctx, u, &tk.ERC20, nil, data, 500_000).Success())
			}
		}
		baseFx = f
	})
	return baseFx
}
